// Package arena places byte strings flush against PROT_NONE guard pages (E7), so that a read
// one byte outside the slice faults.  With debug.SetPanicOnFault(true) the fault is a
// recoverable runtime.Error attributed to the current input.
package arena

import (
	"syscall"
)

const page = 4096

type Arena struct {
	mem  []byte
	data []byte // usable region between two guard pages
	n    int
}

// New maps guard | n usable pages | guard.
func New(pages int) *Arena {
	total := (pages + 2) * page
	mem, err := syscall.Mmap(-1, 0, total, syscall.PROT_READ|syscall.PROT_WRITE, syscall.MAP_ANON|syscall.MAP_PRIVATE)
	if err != nil {
		panic("arena: mmap: " + err.Error())
	}
	if err := syscall.Mprotect(mem[:page], syscall.PROT_NONE); err != nil {
		panic("arena: mprotect: " + err.Error())
	}
	if err := syscall.Mprotect(mem[total-page:], syscall.PROT_NONE); err != nil {
		panic("arena: mprotect: " + err.Error())
	}
	return &Arena{mem: mem, data: mem[page : total-page : total-page], n: pages * page}
}

// Cap is the largest input that fits.
func (a *Arena) Cap() int { return a.n }

// AtEnd returns a copy of b whose last byte is the last readable byte before the trailing guard page (len == cap).
func (a *Arena) AtEnd(b []byte) []byte {
	off := a.n - len(b)
	dst := a.data[off:a.n:a.n]
	copy(dst, b)
	// what precedes the input is not the harness's to define, but keep the near neighbourhood deterministic
	lo := off - 256
	if lo < 0 {
		lo = 0
	}
	for i := lo; i < off; i++ {
		a.data[i] = 0
	}
	return dst
}

// AtStart returns a copy of b whose first byte is the first readable byte after the leading guard page;
// spare bytes after it (inside capacity) are set to fill.
func (a *Arena) AtStart(b []byte, spare int, fill byte) []byte {
	if len(b)+spare > a.n {
		spare = a.n - len(b)
	}
	dst := a.data[0 : len(b) : len(b)+spare]
	copy(dst, b)
	sp := a.data[len(b) : len(b)+spare]
	for i := range sp {
		sp[i] = fill
	}
	return dst
}
