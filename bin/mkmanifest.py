#!/usr/bin/env python3
"""Generate /verif/MANIFEST.json from the table below (single source of truth for the interface)."""
import json, os, sys

HERE = os.path.dirname(os.path.dirname(os.path.abspath(__file__)))

GOENV = "GOFLAGS=-mod=mod GOPROXY=off GOSUMDB=off GOTOOLCHAIN=local"

# id -> (category, level text, level note, technique, engine, design ref)
C = {}

def add(id, cat, text, note, tech, engine, ref):
    C[id] = dict(cat=cat, text=text, note=note, tech=tech, engine=engine, ref=ref)

COMMON_NOTE = ("Trusted base: the Go toolchain, the hand-written explorer in /verif/mc, the reference model in /verif/ref, and the overlay shims "
               "(deterministic auditing buffer pool, dirty-memory allocator) standing in for the real pool; bounds are stated in the evidence file. ")

add("C20", "exploration",
    "Exhaustive enumeration of every sub-slice b[i:j:k] / substring s[i:j] over backing stores of length 0..9 (plus nil/empty) for both build variants of package unsafex and, as a third variant, for a 32-bit build (cmd/c20arch, GOARCH=386, executed when the kernel runs 32-bit binaries); each case checks length, content, data-pointer identity, cap==len and that append never alters the enclosing string. The functions are pure and shape-only, so the small scope covers every combination of offset, length and spare capacity.",
    COMMON_NOTE + "The pre-go1.21 file is compiled with the installed toolchain through the overlay.",
    "bounded-exhaustive enumeration of the input space (small-scope) against a direct oracle", "E1/E6", "5/C20")

MC_NOTE = COMMON_NOTE + "States are keyed by EVERY private field of the object, read by reflection (package vdump: no private identifier of the code under test is named anywhere): extents and contents of its buffers, cursor, flags, parked buffers, sticky error, size statistics; the key is deliberately over-fine, which is always sound for de-duplication, so merging never hides a corrupted buffer. "

add("C04", "model_checking",
    "Explicit-state breadth-first search over ALL operation histories (Next/Peek/Skip/ReadBinary with boundary sizes, negative counts, Release) of the REAL DefaultReader and BytesReader, for every combination of stream length, chunk policy, end-of-data style, zero-read policy and terminal error, with every transition compared against a plain cursor over the source bytes; on top, every per-Read deviation (1-byte, empty, half, all-with-error) up to a deviation bound on all short histories. This is the right level because the property quantifies over histories x fragmentations and the defects live in cursor arithmetic reachable only from non-initial states.",
    MC_NOTE + "Environment: 10 kinds of terminal error values (plain, wrapped, wrapping an exception, typed, timeout, an aggregate of a non-comparable type, an error value made by the library itself); after its terminal error a source either repeats it or answers garbage and another error; sources may also expose Len/ReadByte/WriteTo, answer up to 30 consecutive empty reads between data and 1..300 before their error (io.ErrNoProgress is accepted only while the source has not produced its error), or deliver their first reads one byte at a time; Release is also called with a non-nil error; requests up to 68 MiB.",
    "explicit-state BFS over operation histories of the real object + deviation-bounded exploration of environment answers, reference-model comparison on every transition", "E2+E1", "5/C04")
add("C05", "model_checking",
    "Explicit-state breadth-first search over ALL histories of Malloc (filled at once or lazily just before Flush, forward/reverse), WriteBinary, Malloc(-1), Flush on the REAL DefaultWriter and BytesWriter, sink failing at write k for every k, bytes writers over nil/empty/partly filled/full initial slices; every transition compared with the region-list model (sink bytes == concatenation once and in order, WrittenLen, sticky error, target slice).",
    MC_NOTE + "Later flushes of one bytes writer: both readings of the statement are accepted.",
    "explicit-state BFS over operation histories of the real object, reference-model comparison on every transition", "E2", "5/C05")
add("C09", "model_checking",
    "The C04/C05 state spaces re-explored with every handed-out slice/region retained until Release/Flush, lazily filled regions, an adversarial co-tenant of the shared pool that drains and scribbles every free buffer between any two operations (keeping or re-freeing), caller-memory snapshots and the allocator shim's ownership audit (foreign free, double free, interior free, write-after-free, write into another tenant's buffer).",
    MC_NOTE + "The co-tenant is deterministic and always runs (worst case). Skip-decoder results are covered through the reader they are backed by.",
    "explicit-state BFS over operation histories of the real objects with an adversarial environment process and ownership audit", "E2+E4", "5/C09")

EX_NOTE = COMMON_NOTE + "The reference is an independent recursive-descent parser of the Thrift Binary grammar (ref/wire.go) written from the format, not from the code. "

add("C02", "exploration",
    "Bounded-exhaustive enumeration: every typed value tree of the generator (all 121 map key/value type pairs, all 11 list/set element types, sizes 0..3/many, 121 ordered struct field pairs, wide values, nesting chains to depth 63, strings to 9000 bytes) x trailers x all 11 skipper/reader combinations (incl. a caller-implemented skip interface and Binary.Skip on an input held in a local array on a goroutine stack that moves while it grows) x every fragmentation policy of the stream (incl. sources with Len, runs of empty reads), values whose size needs the top byte of the 32-bit length, plus every per-Read deviation (<= bound) on small values and all decoder histories of <= 3 Next calls with pool reuse, a value > 1 MiB, Release between calls, SkipN before Next, and a first stream ending with its last value (final bytes delivered with the source's error) followed by a healthy stream through the same decoder re-acquired from the pool or re-targeted with Reset; oracle = encoded length / bytes / ReadLen / next byte / bytes pulled from the io.Reader / no Read issued once the value has been delivered.",
    EX_NOTE, "bounded-exhaustive enumeration of typed value trees x environment answers (deviation-bounded) against a reference encoder", "E1+E6", "5/C02")
add("C03", "exploration",
    "Bounded-exhaustive enumeration of inputs on all 22 buffer-based entry points (string-copying ones under both settings of the span-cache allocator): all grammar-alphabet strings up to length L and all full-alphabet strings up to length 2/3 (Binary.Skip with all 256 type bytes), every truncation, every single (thorough: pair of) structural perturbation and all pairwise splices of valid encodings; each call runs in three placements (against a PROT_NONE guard page, with spare capacity 0x00 and 0xff) under a recover boundary: no panic, no fault, identical results, reported length <= len(input). Call histories on one skip decoder: every sequence of <= 3 calls over 12 exported operations (Next x 6 requested types, SkipN x 4 counts, Reset, Grow) x 4 decoder/reader combinations x every truncation of 5 encodings.",
    EX_NOTE + "Allocating entry points are driven with declared sizes <= 65536 only (the cap the statement allows).",
    "bounded-exhaustive input enumeration with guard-page placement and panic/fault boundary", "E6+E7", "5/C03")
add("C08", "exploration",
    "Bounded-exhaustive enumeration on all five skipping facilities (11 skipper/reader combinations, incl. stack-held input): all grammar-alphabet strings up to length L x 18 requested types, every strict prefix and structural perturbation of generated trees, nesting chains 1..70 (plus mixed-kind and very deep chains) — accept/reject and extent compared with the independent grammar parser; rejection required from nesting 65, level 64 not compared.",
    EX_NOTE + "A stream skipper asking for > 2 MiB on a < 64 KiB input counts as a rejection (counted separately).",
    "bounded-exhaustive input enumeration against an independent recursive-descent grammar", "E6", "5/C08")

add("C01", "exploration",
    "Whole-domain and bounded-exhaustive enumeration of codec values on every writer (in-place, appending onto nil / a prefix with spare capacity, stream writer over both bufiox writers) and every reader (Binary.Read*, stream reader over the bytes reader and over the io.Reader-backed reader under every fragmentation policy and per-Read deviations): all bool/i8/i16, all (type byte, field id) pairs, all container type bytes x sizes to 2^31-1, structured i32/i64/double bit patterns incl. NaN payloads, (thorough) all 2^32 i32, strings 0..65537 bytes, all sequences of <= 3 values over a 14-kind alphabet and long back-to-back runs crossing several buffer growths; oracle = independent big-endian encoder.",
    EX_NOTE, "whole-domain / bounded-exhaustive enumeration against a reference encoder, environment answers enumerated (deviation-bounded)", "E1+E6", "5/C01")
add("C11", "exploration",
    "Exhaustive product on the write side (field values x map shapes x nil receiver: BLength == FastWrite == FastWriteNocopy(nil) == FastMarshal, bytes parsed back order-insensitively) and, on the read side, inputs built by the reference encoder: every ordered selection of the known fields x unknown fields of every generated type at every gap (ids 100, -1, ids colliding with known ids under other types, ids agreeing with a known id in the low byte), two unknown fields at all gap pairs, trailing bytes.",
    EX_NOTE, "bounded-exhaustive enumeration of struct encodings (permutations x insertion points x value generator) against a reference encoder/decoder", "E6", "5/C11")
add("C12", "exploration",
    "All 65536 message types, name lengths 0..65536 with arbitrary bytes, sequence-id alphabet, 3 writers x 2 readers under every fragmentation policy; strict-version check swept over the first word (quick: all upper halves x 3 + all lower halves; thorough: all 2^32 values) on both readers; every strict prefix rejected; MarshalFastMsg/UnmarshalFastMsg product incl. EXCEPTION messages (also with unknown fields) with input-buffer reuse after decoding.",
    EX_NOTE, "whole-domain sweeps and bounded-exhaustive products against a reference encoder", "E6", "5/C12")
add("C13", "exploration",
    "Both directions (bytes -> tree -> bytes, tree -> bytes -> tree) on every generated value tree, all sequences of <= 3 top-level fields, all 121 ordered pairs and 1331 triples of field types inside nested structs (also inside lists and as map values), list<a>/set<b>/scalar/string for all 121 element-type pairs and map<a,b>/list<c>/scalar for all 1331 type triples inside nested structs, empty containers of all 121 key/value type pairs and members of different encoded sizes; the tree is compared field by field incl. Go types and the rule that KeyType/ValType are set only where meaningful.",
    EX_NOTE, "bounded-exhaustive enumeration of typed field trees against a reference encoder", "E6", "5/C13")
add("C17", "fault_enumeration",
    "In-memory: every failing call of the Binary readers/ReadMessageBegin/Skip met on all grammar-alphabet strings, all version halves, prefixes/perturbations and deep chains is classified by an independent reference into truncated / unknown type / negative size / bad version / depth and the protocol-exception type id must be admissible. Stream: every BufferReader method on streams cut at EVERY byte position x 8 terminal error values (wrapped sentinels, an error wrapping a protocol exception, a typed error wrapping its cause, wrapped io.EOF, a timeout) x end style x chunk policy, runs of 1..300 empty reads before the error, declared sizes beyond 64 MiB: the failure must match the source's error under errors.Is - also after the recycled reader object has served another stream that failed with a different error; pooled readers are deliberately reused across cases so stale state would show.",
    EX_NOTE, "exhaustive fault enumeration (every cut position x every injected error value) plus bounded-exhaustive malformed-input enumeration with an independent cause classifier", "E6+E1", "5/C17")

TTH_NOTE = COMMON_NOTE + "The reference is an independent TTHeader frame builder/decoder/layout checker (ref/tth.go) written from the documented layout with 32-bit arithmetic. "
add("C06", "exploration",
    "Whole-domain sweeps (all 65536 flag words, all 256 protocol ids, every single-bit sequence id) and the exhaustive product of string-keyed x int-keyed info maps with <= 2/3 entries over key/value alphabets chosen so that every padding residue and section combination occurs, plus a sweep of the header-info size across the 65536 limit (65500..65545) for four section shapes; three writers x three readers (stream-backed under fragmentation) x payload lengths; the produced bytes are checked against the layout and the decode results against the parameters, HeaderLen == bytes written == bytes consumed, PayloadLen == total+4-HeaderLen.",
    TTH_NOTE, "whole-domain sweeps + bounded-exhaustive parameter products against an independent layout checker", "E6", "5/C06")
add("C10", "exploration",
    "Whole-domain sweeps of every header field that drives the decoder's arithmetic (all 65536 size-field values x available lengths, all flag words, all magic half-words, all protocol ids x transform counts, all info ids), all header-info regions over small alphabets up to 4^10/8^6 (thorough 8^7, 5^10), all sequences of <= 3 sections with repeats/padding/repeated keys, and every truncation / byte perturbation of each valid frame, bytes- and stream-backed; accept/reject, HeaderLen, PayloadLen, maps and bytes consumed compared with the independent reference decoder.",
    TTH_NOTE, "whole-domain sweeps + bounded-exhaustive hostile-frame enumeration against an independent reference decoder", "E6", "5/C10")

add("C07", "exploration",
    "The hash function is owned by the harness (overlay knob), so collision chains are enumerated, not sampled: all key sets of size 0..4 over an 11-key alphabet x every key->slot assignment over the slot alphabet (quick: first, second and last slot; thorough: every slot) x 3 realisations of a slot as a 64-bit hash, every alphabet string probed with absent probes hashed into every slot (occupied run, last run, empty slot); value kinds int / pointer-free struct / Str2Str; all sequences of <= 3 loads on one instance (map, slices, failing load) incl. never-loaded instances (constructed, and the zero Str2Str incl. whole histories starting from it) and first loads through the New*FromSlice/New*FromMap constructors, compared with a Go map after every step; every query (Get, Len, Item, String) must leave the private state bit-identical when the map type holds no synchronisation primitive; every table size 0..300 and around each row of the prime table under 4 formula hashes.",
    COMMON_NOTE + "Reference: Go map. The hash knob preserves the API and the uint32 truncation the code applies; Go map iteration order inside LoadFromMap is not owned (such cases are re-executed up to 8 times by the replay gate).",
    "small-scope exhaustive enumeration of key sets x hash assignments x load histories against a Go map, with the hash function as a controlled environment", "E6+E4", "5/C07")

add("C18", "exploration",
    "The helpers are pure functions of small arguments, so the whole product is enumerated: 13 error kinds (the three library exceptions, with causes, foreign types exposing TypeId, user types embedding each library exception, fmt.Formatter errors, a protocol exception reused as decode target / with a mutable cause, plain) x 15 type ids x 4 messages x 9 causes (incl. errors.Join and multi-%w trees, non-comparable) x {bare, wrapped} x 3 prefixes for PrependError and NewProtocolExceptionWithErr (dynamic type, type id, text, identity on protocol exceptions, Unwrap/Is reachability), and all ordered pairs (protocol exception, target) for errors.Is and for the Is method called directly against a reference predicate.",
    COMMON_NOTE, "exhaustive product enumeration against a reference predicate", "E6", "5/C18")
add("C19", "model_checking",
    "Explicit-state breadth-first search over all histories of Write/Read/Reset/Close/RemainingBytes/IsOpen/Open/Flush on the two handles (transport, buffer) of one bytes.Buffer, for both constructors, with a byte-FIFO reference compared after every transition (reads through either handle, RemainingBytes == unread length, Close empties, Reset visible through the other handle); plus the generic transport over every readable-length class and every registration/call sequence of <= 4 steps for the three callbacks (identity of arguments, result passed through, specific error and no call when unregistered).",
    COMMON_NOTE + "States are keyed by the model (FIFO content, whether a byte can be pushed back) AND by the private state of the real bytes.Buffer read by reflection, so two histories are merged only if the object itself is in the same state. Operations also include UnreadByte on the buffer handle and io.Copy from a size-limited reader into the transport.",
    "explicit-state BFS over operation histories of the real object against a FIFO reference model", "E2", "5/C19")

add("C15", "exploration",
    "The whole interval of value lengths 0..3x4096+1 is swept for WriteStringNocopy/WriteBinaryNocopy with a nil and a recording direct writer and buffers with exact and spare capacity; all sequences of <= 3 calls over boundary lengths; Base with every combination of small/threshold-1/threshold/threshold+1 for its three strings, a map key and a map value (4^5 + nil/empty map), BaseResp, ApplicationException. structs with 2..70 map entries of large values (streams compared as decoded structs, maps as sets) and writes that follow a failed (panicked, recovered) write. Oracle: an independent splice of the linear bytes with the recorded (slice, remainCap) pairs must equal the copying path; direct writes only with a writer attached, positions in stream order, every piece covered by its remaining capacity, the linear bytes before a position final when it is announced, returned n + direct bytes == advertised length; which values go direct (the threshold) and whether pieces alias the caller's memory are the library's choice and are not asserted; a second, end-relative splice convention is cross-checked.",
    COMMON_NOTE, "full interval sweep + bounded-exhaustive combinations against an independent splice oracle", "E6", "5/C15")
add("C16", "exploration",
    "For every value-length class across the span allocator's size classes a run of consecutive decodes long enough to wrap the 1 MiB span (thorough: twice), all results retained, plus all ordered pairs of classes alternating (short runs and runs that wrap the span) and all ordered triples of distinct classes, on 10 entry points (Base and ApplicationException FastRead also into values that already hold the arriving message) and both span-cache settings; afterwards the input is overwritten, reader buffers are released and scribbled by a pool co-tenant, and every retained value must be unchanged; the capacity ranges of all returned values are checked pairwise disjoint and disjoint from the input by a sorted address sweep, and appending to / overwriting returned slices must leave siblings and input intact.",
    COMMON_NOTE + "Strings may share memory with other strings (the Go runtime interns 1-byte strings); only mutable ranges are required to be disjoint.",
    "bounded-exhaustive enumeration of decode histories per allocator size class with aliasing oracle (address sweep + mutation)", "E6+E4", "5/C16")

add("C14", "model_checking",
    "Stateless model checking of the real code under a cooperative scheduler: thread bodies run create/use/release cycles (twice, so pooled objects and buffers are re-acquired) of every pooled type with payloads stamped by thread id; scheduling points sit before every sync.Pool Get/Put, every buffer-pool Malloc/Free, the span allocator's try-lock and every source/sink IO; ALL schedules with <= 2 (thorough 3) preemptions are enumerated for 30 two- and three-thread scenarios (readers, writers, the three skip decoders, TTHeader codec incl. encodes from shared parameter maps, span allocator, Base encode re-entered at the direct-write callback, error paths), with 'the pool lost its items at this Get' as an extra deviation. Oracle per execution: every result equals the value the body knows must come back, each thread's observation log equals its solo log, buffer-pool ownership audit, pooled objects are neither used (trap) nor written (snapshot) after Put. Shared maps: every exported query is shown to leave all private fields bit-identical (when the type holds no synchronisation primitive), so reads commute and the sequential exploration covers all interleavings of queries. Complement (sampling, declared): a free-running -race pass of equivalent bodies and of the helper functions (exception rendering and matching, unknown-field get/length/write, apache bridge) on the un-shimmed build plus concurrent Get/Len/Item/String on shared maps, preceded by 8 (thorough 40) fresh processes in which 16 goroutines released together make their FIRST calls into the library in rotated orders (lazily built package-level state is written by the first call only).",
    COMMON_NOTE + "Scheduling points are at synchronisation operations only; unsynchronised accesses between them are left to the -race complement, which is sampling and only ever adds data-race/self-check reports. Memory model: sequential consistency.",
    "stateless model checking under a controlled scheduler with iterative preemption bounding (hand-written explorer), plus a declared free-running race-detector complement", "E3+E4", "5/C14")

NOT_YET = {}

def main():
    props = [json.loads(l)["id"] for l in open(os.path.join(HERE, "properties.jsonl"))]
    claimed = [p for p in props if p in C and p not in NOT_YET]
    checks = []
    for p in claimed:
        c = C[p]
        lid = p.lower()
        checks.append({
            "property_id": p,
            "quick_cmd": "bin/check %s --tier quick" % lid,
            "thorough_cmd": "bin/check %s --tier thorough" % lid,
            "evidence_file": "/verif/evidence/%s.json" % p,
            "replay_cmd_template": "bin/check %s --replay {path}" % lid,
            "engine": c["engine"],
            "level_claimed": {"category": c["cat"], "text": c["text"], "design_ref": "DESIGN.md section " + c["ref"]},
            "level_note": c["note"],
            "technique": c["tech"],
        })
    na = []
    for p in props:
        if p not in claimed:
            na.append({"property_id": p, "reason": NOT_YET.get(p, "check not built yet in this round; planned as bounded exhaustive exploration (DESIGN.md section 5) — listed here until its harness is committed")})
    m = {
        "version": 1,
        "setup_cmd": "bin/setup",
        "hooks": {
            "guard": "verif",
            "enable": "no source hooks: every check regenerates a `go build -overlay` file map from /repo's working tree (bin/mkoverlay.py) that swaps in the deterministic buffer pool / sync.Pool / span / hash shims (private state of the code under test is read by reflection, nothing private is named); the build tag `verif` is reserved and unused",
            "baseline_off_cmd": "cd /repo && %s go test -vet=off -count=1 ./..." % GOENV,
            "source_commits": [],
            "add_only": True,
        },
        "engines": [
            {"name": "E1 choice-sequence explorer", "path": "mc/explore.go", "serves_properties": [], "kind_free_text": "stateless deviation-bounded exploration of environment answers (iterative context bounding generalised to short reads / errors / pool answers)"},
            {"name": "E2 explicit-state BFS over real objects", "path": "mc/explore.go", "serves_properties": [], "kind_free_text": "breadth-first search over operation histories of the real reader/writer/transport with canonical state keys from private-state dumps; every transition is compared with a reference model"},
            {"name": "E3 cooperative scheduler", "path": "mc/sched.go", "serves_properties": [], "kind_free_text": "preemption-bounded enumeration of goroutine interleavings at pool/allocator/IO scheduling points"},
            {"name": "E4 overlay shims", "path": "shim/src", "serves_properties": [], "kind_free_text": "deterministic auditing mcache, dirty-memory dirtmake, sync.Pool and atomic stand-ins, controllable maphash, private-state dumps"},
            {"name": "E8 driver", "path": "cmd/verifcheck", "serves_properties": props, "kind_free_text": "shards the enumeration over worker processes, replays every violation for determinism, matches known findings, writes evidence"},
        ],
        "checks": checks,
        "not_applicable": na,
        "notes": "All checks: cwd=/verif; exit 0 = held on everything explored; exit 1 + `VIOLATION property=<id> replay=<path>`; exit 2 = harness error (no verdict). Design: DESIGN.md.",
    }
    json.dump(m, open(os.path.join(HERE, "MANIFEST.json"), "w"), indent=1)
    print("claimed:", " ".join(claimed))

if __name__ == "__main__":
    main()
