#!/usr/bin/env python3
"""Regenerate the build overlay from /repo's current working tree.

usage: mkoverlay.py <outdir> [--base <overlay.json>]
Writes <outdir>/overlay.json.  Nothing in /repo or the module cache is modified.
A rewrite that no longer applies is a hard error (exit 2): never build un-shimmed code silently.
"""
import json, os, re, subprocess, sys

REPO = os.environ.get("VERIF_REPO", "/repo")
HERE = os.path.dirname(os.path.dirname(os.path.abspath(__file__)))
SRC = os.path.join(HERE, "shim", "src")

def die(msg):
    sys.stderr.write("mkoverlay: " + msg + "\n")
    sys.exit(2)

def main():
    out = sys.argv[1]
    base = {}
    if "--base" in sys.argv:
        base = json.load(open(sys.argv[sys.argv.index("--base") + 1]))["Replace"]
    os.makedirs(out, exist_ok=True)
    modcache = subprocess.check_output(["go", "env", "GOMODCACHE"], text=True).strip()
    bd = os.path.join(modcache, "github.com/bytedance/gopkg@v0.1.1/lang")
    if not os.path.isdir(bd):
        die("module cache lacks github.com/bytedance/gopkg@v0.1.1")
    rep = dict(base)

    def put(target, name, content=None):
        dst = os.path.join(out, name)
        if content is None:
            content = open(os.path.join(SRC, name + ".in")).read()
        os.makedirs(os.path.dirname(dst), exist_ok=True)
        with open(dst, "w") as f:
            f.write(content)
        rep[target] = dst

    def read_repo(rel):
        p = os.path.join(REPO, rel)
        p = base.get(p, p)  # a base overlay (mutant layer) wins over the working tree
        if not os.path.exists(p):
            die("missing %s" % rel)
        return open(p).read()

    # 1. deterministic auditing allocator + dirty memory
    put(os.path.join(bd, "mcache/mcache.go"), "mcache.go")
    put(os.path.join(bd, "dirtmake/bytes.go"), "dirtmake.go")
    # 2. private-state dumps
    put(os.path.join(REPO, "bufiox/zz_verif_dump.go"), "bufiox_dump.go")
    put(os.path.join(REPO, "container/strmap/zz_verif_dump.go"), "strmap_dump.go")
    put(os.path.join(REPO, "protocol/thrift/zz_verif_dump.go"), "thrift_dump.go")
    # 3. deterministic sync.Pool for protocol/thrift (import rewrite) + virtual package
    put(os.path.join(REPO, "verifshim/vsync/pool.go"), "vsync_pool.go")
    for rel in ["protocol/thrift/bufferreader.go", "protocol/thrift/bufferwriter.go", "protocol/thrift/skipdecoder.go"]:
        s = read_repo(rel)
        n = len(re.findall(r'^\s*"sync"\s*$', s, flags=re.M))
        if n != 1:
            die('%s: expected exactly one `"sync"` import line, found %d' % (rel, n))
        s = re.sub(r'^(\s*)"sync"\s*$', r'\1sync "github.com/cloudwego/gopkg/verifshim/vsync"', s, count=1, flags=re.M)
        put(os.path.join(REPO, rel), "rw_" + os.path.basename(rel), s)
    put(os.path.join(REPO, "verifshim/vnetpoll/netpoll.go"), "vnetpoll.go")
    # 4. span allocator: atomic -> scheduling-point shim
    s = open(os.path.join(bd, "span/span.go")).read()
    if s.count('"sync/atomic"') != 1:
        die("span.go: sync/atomic import not found")
    s = s.replace('"sync/atomic"', 'atomic "github.com/cloudwego/gopkg/verifshim/vatomic"')
    put(os.path.join(bd, "span/span.go"), "rw_span.go", s)
    put(os.path.join(REPO, "verifshim/vatomic/atomic.go"), "vatomic.go")
    # 5. controllable hash for the string map
    s = read_repo("internal/hash/maphash/maphash.go")
    m = re.search(r'func String\(seed maphash\.Seed, s string\) uint64 \{\n', s)
    if not m:
        die("maphash.go: func String not found")
    s = s[:m.end()] + "\tif VerifHashTable != nil {\n\t\tif h, ok := VerifHashTable[s]; ok {\n\t\t\treturn h\n\t\t}\n\t\tif VerifHashFn != nil {\n\t\t\treturn VerifHashFn(s)\n\t\t}\n\t}\n" + s[m.end():]
    s += "\n// VerifHashTable / VerifHashFn: added by the verification overlay; the harness decides hash values.\nvar VerifHashTable map[string]uint64\nvar VerifHashFn func(string) uint64\n"
    put(os.path.join(REPO, "internal/hash/maphash/maphash.go"), "rw_maphash.go", s)
    if "--unsafex-go100" in sys.argv:
        s = read_repo("unsafex/unsafex_go100.go")
        s2 = re.sub(r'^//go:build[^\n]*\n', '', s, flags=re.M)
        s2 = re.sub(r'^// \+build[^\n]*\n', '', s2, flags=re.M)
        if s2 == s:
            die("unsafex_go100.go: no build constraint found to strip")
        put(os.path.join(REPO, "unsafex/unsafex_go121.go"), "rw_unsafex_go100.go", s2)
    # maphash is internal: re-export the knobs through strmap's dump file (same module, allowed)
    json.dump({"Replace": rep}, open(os.path.join(out, "overlay.json"), "w"), indent=1)

main()
