#!/usr/bin/env python3
"""Regenerate the build overlay from /repo's current working tree.

usage: mkoverlay.py <outdir> [--base <overlay.json>]
Writes <outdir>/overlay.json.  Nothing in /repo or the module cache is modified.
A rewrite that no longer applies is a hard error (exit 2): never build un-shimmed code silently.
"""
import json, os, re, subprocess, sys

REPO = os.environ.get("VERIF_REPO", "/repo")
HERE = os.path.dirname(os.path.dirname(os.path.abspath(__file__)))
SRC = os.path.join(HERE, "shim", "src")

def die(msg):
    sys.stderr.write("mkoverlay: " + msg + "\n")
    sys.exit(2)

def main():
    out = sys.argv[1]
    base = {}
    if "--base" in sys.argv:
        base = json.load(open(sys.argv[sys.argv.index("--base") + 1]))["Replace"]
    os.makedirs(out, exist_ok=True)
    modcache = subprocess.check_output(["go", "env", "GOMODCACHE"], text=True).strip()
    m = re.search(r'github.com/bytedance/gopkg\s+(v[0-9][^\s]*)', open(os.path.join(REPO, "go.mod")).read())
    ver = m.group(1) if m else "v0.1.1"
    bd = os.path.join(modcache, "github.com/bytedance/gopkg@%s/lang" % ver)
    if not os.path.isdir(bd):
        die("module cache lacks github.com/bytedance/gopkg@%s" % ver)
    rep = dict(base)
    notes = {}

    def put(target, name, content=None):
        dst = os.path.join(out, name)
        if content is None:
            content = open(os.path.join(SRC, name + ".in")).read()
        os.makedirs(os.path.dirname(dst), exist_ok=True)
        with open(dst, "w") as f:
            f.write(content)
        rep[target] = dst

    def read_repo(rel):
        p = os.path.join(REPO, rel)
        p = base.get(p, p)  # a base overlay (mutant layer) wins over the working tree
        if not os.path.exists(p):
            die("missing %s" % rel)
        return open(p).read()

    # 1. deterministic auditing allocator + dirty memory
    put(os.path.join(bd, "mcache/mcache.go"), "mcache.go")
    put(os.path.join(bd, "dirtmake/bytes.go"), "dirtmake.go")
    # 2. (private state is read by reflection, package verif/vdump: no file is added to bufiox / thrift, and no
    #    private identifier of cloudwego/gopkg is named anywhere in the harness)
    # 3. deterministic sync.Pool (import rewrite in EVERY non-test file of the repository that imports "sync";
    #    the virtual package aliases everything else of package sync) + virtual package
    put(os.path.join(REPO, "verifshim/vsync/pool.go"), "vsync_pool.go")
    rewritten = []
    for root, dirs, files in os.walk(REPO):
        dirs[:] = [d for d in dirs if not d.startswith(".") and d not in ("verifshim", "testdata", "_seed")]
        for fn in sorted(files):
            if not fn.endswith(".go") or fn.endswith("_test.go"):
                continue
            rel = os.path.relpath(os.path.join(root, fn), REPO)
            s = read_repo(rel)
            if not re.search(r'^\s*"sync"\s*$', s, flags=re.M):
                continue
            s = re.sub(r'^(\s*)"sync"\s*$', r'\1sync "github.com/cloudwego/gopkg/verifshim/vsync"', s, count=1, flags=re.M)
            put(os.path.join(REPO, rel), "rw_" + rel.replace("/", "__"), s)
            rewritten.append(rel)
    notes["sync_import_rewritten_in"] = rewritten
    # 4. span allocator: atomic -> scheduling-point shim
    s = open(os.path.join(bd, "span/span.go")).read()
    if s.count('"sync/atomic"') != 1:
        die("span.go: sync/atomic import not found")
    s = s.replace('"sync/atomic"', 'atomic "github.com/cloudwego/gopkg/verifshim/vatomic"')
    hook = "\tsp.buffer = dirtmake.Bytes(0, size)\n\treturn sp"
    if s.count(hook) != 1:
        die("span.go: NewSpan body not found")
    s = s.replace(hook, "\tsp.buffer = dirtmake.Bytes(0, size)\n\tverifSpans = append(verifSpans, sp)\n\treturn sp")
    s += """
// ---- added by the verification overlay ----

var verifSpans []*span

// VerifResetAll puts every span ever created back into its initial state (determinism between executions): the
// part of the buffer that was handed out is made dirty again.
func VerifResetAll() {
	for _, sp := range verifSpans {
		b := sp.buffer[:cap(sp.buffer)]
		n := int(sp.read)
		if n > len(b) {
			n = len(b)
		}
		for i := 0; i < n; i++ {
			b[i] = 0xE9
		}
		sp.buffer = b[:0]
		sp.lock, sp.read = 0, 0
	}
}
"""
    put(os.path.join(bd, "span/span.go"), "rw_span.go", s)
    put(os.path.join(REPO, "verifshim/vatomic/atomic.go"), "vatomic.go")
    # 5. controllable hash for the string map (if the hook point cannot be found the knob is simply absent: C07 then
    #    runs under the repository's real hash only and says so in its evidence)
    knob = False
    mh = os.path.join(REPO, "internal/hash/maphash/maphash.go")
    if os.path.exists(base.get(mh, mh)):
        s = read_repo("internal/hash/maphash/maphash.go")
        # every hashing entry point of the helper package (String, Bytes, ...): func X(<seed> maphash.Seed, <v> string|[]byte) uint64
        pat = re.compile(r'func \w+\(\w+ (?:maphash\.)?Seed, (\w+) (string|\[\]byte)\) uint64 \{\n')
        hooks = list(pat.finditer(s))
        if hooks:
            for m in reversed(hooks):
                key = m.group(1) if m.group(2) == "string" else "string(%s)" % m.group(1)
                s = s[:m.end()] + "\tif VerifHashTable != nil {\n\t\tif h, ok := VerifHashTable[%s]; ok {\n\t\t\treturn h\n\t\t}\n\t\tif VerifHashFn != nil {\n\t\t\treturn VerifHashFn(%s)\n\t\t}\n\t}\n" % (key, key) + s[m.end():]
            s += "\n// VerifHashTable / VerifHashFn: added by the verification overlay; the harness decides hash values.\nvar VerifHashTable map[string]uint64\nvar VerifHashFn func(string) uint64\n"
            put(os.path.join(REPO, "internal/hash/maphash/maphash.go"), "rw_maphash.go", s)
            knob = True
    notes["strmap_hash_knob"] = knob
    # maphash is internal to the module: the knob is re-exported through a file added to package strmap
    if knob:
        put(os.path.join(REPO, "container/strmap/zz_verif_knob.go"), "strmap_knob.go")
    else:
        put(os.path.join(REPO, "container/strmap/zz_verif_knob.go"), "strmap_knob.go",
            "package strmap\n\n// VerifSetHash: the hook point for a harness-owned hash was not found in this tree.\nfunc VerifSetHash(t map[string]uint64, fn func(string) uint64) bool { return false }\n")
    if "--unsafex-go100" in sys.argv:
        # C20's second variant: the pre-go1.21 implementation compiled in place of the go1.21 one.  If the tree no longer
        # has the two files in this shape there is no second variant to check (exit 3, bin/check then skips it).
        a, b = os.path.join(REPO, "unsafex/unsafex_go100.go"), os.path.join(REPO, "unsafex/unsafex_go121.go")
        if not (os.path.exists(base.get(a, a)) and os.path.exists(base.get(b, b))):
            sys.exit(3)
        s = read_repo("unsafex/unsafex_go100.go")
        s2 = re.sub(r'^//go:build[^\n]*\n', '', s, flags=re.M)
        s2 = re.sub(r'^// \+build[^\n]*\n', '', s2, flags=re.M)
        if s2 == s:
            sys.exit(3)
        put(os.path.join(REPO, "unsafex/unsafex_go121.go"), "rw_unsafex_go100.go", s2)
    json.dump({"Replace": rep}, open(os.path.join(out, "overlay.json"), "w"), indent=1)
    json.dump(notes, open(os.path.join(out, "notes.json"), "w"), indent=1)

main()
