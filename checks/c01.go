package checks

import (
	"bytes"
	"encoding/json"
	"fmt"
	"math"

	"github.com/bytedance/gopkg/lang/mcache"
	"github.com/cloudwego/gopkg/bufiox"
	"github.com/cloudwego/gopkg/protocol/thrift"
	vsync "github.com/cloudwego/gopkg/verifshim/vsync"

	"verif/mc"
)

// C01 — Thrift binary codec: every writer and reader agrees with the wire format.

// cv is one codec value: kind selects the API family.
type cv struct {
	K    string `json:"kind"` // bool byte i16 i32 i64 double string binary field stop map list set
	I    uint64 `json:"i,omitempty"`
	S    []byte `json:"s,omitempty"`
	SLen int    `json:"slen,omitempty"` // strings are regenerated from their length on replay when S is empty
	T1   int8   `json:"t1,omitempty"`
	T2   int8   `json:"t2,omitempty"`
	ID   int16  `json:"id,omitempty"`
	N    int    `json:"n,omitempty"`

	str string // the decoded string itself (not a copy), to observe aliasing after buffer reuse
}

func (v cv) String() string {
	switch v.K {
	case "string", "binary":
		return fmt.Sprintf("%s[%d bytes]", v.K, len(v.S))
	case "field":
		return fmt.Sprintf("field(type=%d,id=%d)", v.T1, v.ID)
	case "map":
		return fmt.Sprintf("map(%d,%d,size=%d)", v.T1, v.T2, v.N)
	case "list", "set":
		return fmt.Sprintf("%s(%d,size=%d)", v.K, v.T1, v.N)
	case "stop":
		return "stop"
	}
	return fmt.Sprintf("%s(%#x)", v.K, v.I)
}

func cvRef(b []byte, v cv) []byte {
	switch v.K {
	case "bool", "byte":
		return append(b, byte(v.I))
	case "i16":
		return append(b, byte(v.I>>8), byte(v.I))
	case "i32":
		return append(b, byte(v.I>>24), byte(v.I>>16), byte(v.I>>8), byte(v.I))
	case "i64", "double":
		return append(b, byte(v.I>>56), byte(v.I>>48), byte(v.I>>40), byte(v.I>>32), byte(v.I>>24), byte(v.I>>16), byte(v.I>>8), byte(v.I))
	case "string", "binary":
		n := len(v.S)
		return append(append(b, byte(n>>24), byte(n>>16), byte(n>>8), byte(n)), v.S...)
	case "field":
		return append(b, byte(v.T1), byte(uint16(v.ID)>>8), byte(v.ID))
	case "stop":
		return append(b, 0)
	case "map":
		return append(b, byte(v.T1), byte(v.T2), byte(v.N>>24), byte(v.N>>16), byte(v.N>>8), byte(v.N))
	case "list", "set":
		return append(b, byte(v.T1), byte(v.N>>24), byte(v.N>>16), byte(v.N>>8), byte(v.N))
	}
	panic("cvRef")
}

func cvLength(v cv) int {
	B := thrift.Binary
	switch v.K {
	case "bool":
		return B.BoolLength()
	case "byte":
		return B.ByteLength()
	case "i16":
		return B.I16Length()
	case "i32":
		return B.I32Length()
	case "i64":
		return B.I64Length()
	case "double":
		return B.DoubleLength()
	case "string":
		return B.StringLength(string(v.S))
	case "binary":
		return B.BinaryLength(v.S)
	case "field":
		return B.FieldBeginLength()
	case "stop":
		return B.FieldStopLength()
	case "map":
		return B.MapBeginLength()
	case "list":
		return B.ListBeginLength()
	case "set":
		return B.SetBeginLength()
	}
	panic("cvLength")
}

func cvWrite(buf []byte, v cv) int {
	B := thrift.Binary
	switch v.K {
	case "bool":
		return B.WriteBool(buf, v.I == 1)
	case "byte":
		return B.WriteByte(buf, int8(v.I))
	case "i16":
		return B.WriteI16(buf, int16(v.I))
	case "i32":
		return B.WriteI32(buf, int32(v.I))
	case "i64":
		return B.WriteI64(buf, int64(v.I))
	case "double":
		return B.WriteDouble(buf, math.Float64frombits(v.I))
	case "string":
		return B.WriteString(buf, string(v.S))
	case "binary":
		return B.WriteBinary(buf, v.S)
	case "field":
		return B.WriteFieldBegin(buf, v.T1, v.ID)
	case "stop":
		return B.WriteFieldStop(buf)
	case "map":
		return B.WriteMapBegin(buf, v.T1, v.T2, v.N)
	case "list":
		return B.WriteListBegin(buf, v.T1, v.N)
	case "set":
		return B.WriteSetBegin(buf, v.T1, v.N)
	}
	panic("cvWrite")
}

func cvAppend(buf []byte, v cv) []byte {
	B := thrift.Binary
	switch v.K {
	case "bool":
		return B.AppendBool(buf, v.I == 1)
	case "byte":
		return B.AppendByte(buf, int8(v.I))
	case "i16":
		return B.AppendI16(buf, int16(v.I))
	case "i32":
		return B.AppendI32(buf, int32(v.I))
	case "i64":
		return B.AppendI64(buf, int64(v.I))
	case "double":
		return B.AppendDouble(buf, math.Float64frombits(v.I))
	case "string":
		return B.AppendString(buf, string(v.S))
	case "binary":
		return B.AppendBinary(buf, v.S)
	case "field":
		return B.AppendFieldBegin(buf, v.T1, v.ID)
	case "stop":
		return B.AppendFieldStop(buf)
	case "map":
		return B.AppendMapBegin(buf, v.T1, v.T2, v.N)
	case "list":
		return B.AppendListBegin(buf, v.T1, v.N)
	case "set":
		return B.AppendSetBegin(buf, v.T1, v.N)
	}
	panic("cvAppend")
}

func cvBufWrite(w *thrift.BufferWriter, v cv) error {
	switch v.K {
	case "bool":
		return w.WriteBool(v.I == 1)
	case "byte":
		return w.WriteByte(int8(v.I))
	case "i16":
		return w.WriteI16(int16(v.I))
	case "i32":
		return w.WriteI32(int32(v.I))
	case "i64":
		return w.WriteI64(int64(v.I))
	case "double":
		return w.WriteDouble(math.Float64frombits(v.I))
	case "string":
		return w.WriteString(string(v.S))
	case "binary":
		return w.WriteBinary(v.S)
	case "field":
		return w.WriteFieldBegin(v.T1, v.ID)
	case "stop":
		return w.WriteFieldStop()
	case "map":
		return w.WriteMapBegin(v.T1, v.T2, v.N)
	case "list":
		return w.WriteListBegin(v.T1, v.N)
	case "set":
		return w.WriteSetBegin(v.T1, v.N)
	}
	panic("cvBufWrite")
}

// cvRead decodes a value of v's kind with the buffer reader; returns the decoded value and consumed length.
func cvRead(kind string, b []byte) (cv, int, error) {
	B := thrift.Binary
	o := cv{K: kind}
	var l int
	var err error
	switch kind {
	case "bool":
		var x bool
		x, l, err = B.ReadBool(b)
		if x {
			o.I = 1
		}
	case "byte":
		var x int8
		x, l, err = B.ReadByte(b)
		o.I = uint64(uint8(x))
	case "i16":
		var x int16
		x, l, err = B.ReadI16(b)
		o.I = uint64(uint16(x))
	case "i32":
		var x int32
		x, l, err = B.ReadI32(b)
		o.I = uint64(uint32(x))
	case "i64":
		var x int64
		x, l, err = B.ReadI64(b)
		o.I = uint64(x)
	case "double":
		var x float64
		x, l, err = B.ReadDouble(b)
		o.I = math.Float64bits(x)
	case "string":
		var x string
		x, l, err = B.ReadString(b)
		o.S = []byte(x)
	case "binary":
		o.S, l, err = B.ReadBinary(b)
	case "field":
		o.T1, o.ID, l, err = B.ReadFieldBegin(b)
	case "stop":
		var t int8
		t, _, l, err = B.ReadFieldBegin(b)
		if err == nil && t != 0 {
			err = fmt.Errorf("expected STOP, got type %d", t)
		}
	case "map":
		o.T1, o.T2, o.N, l, err = B.ReadMapBegin(b)
	case "list":
		o.T1, o.N, l, err = B.ReadListBegin(b)
	case "set":
		o.T1, o.N, l, err = B.ReadSetBegin(b)
	}
	return o, l, err
}

func cvBufRead(kind string, r *thrift.BufferReader) (cv, error) {
	o := cv{K: kind}
	var err error
	switch kind {
	case "bool":
		var x bool
		x, err = r.ReadBool()
		if x {
			o.I = 1
		}
	case "byte":
		var x int8
		x, err = r.ReadByte()
		o.I = uint64(uint8(x))
	case "i16":
		var x int16
		x, err = r.ReadI16()
		o.I = uint64(uint16(x))
	case "i32":
		var x int32
		x, err = r.ReadI32()
		o.I = uint64(uint32(x))
	case "i64":
		var x int64
		x, err = r.ReadI64()
		o.I = uint64(x)
	case "double":
		var x float64
		x, err = r.ReadDouble()
		o.I = math.Float64bits(x)
	case "string":
		var x string
		x, err = r.ReadString()
		o.S = []byte(x)
		o.str = x
	case "binary":
		o.S, err = r.ReadBinary()
	case "field":
		o.T1, o.ID, err = r.ReadFieldBegin()
	case "stop":
		var t int8
		t, _, err = r.ReadFieldBegin()
		if err == nil && t != 0 {
			err = fmt.Errorf("expected STOP, got type %d", t)
		}
	case "map":
		o.T1, o.T2, o.N, err = r.ReadMapBegin()
	case "list":
		o.T1, o.N, err = r.ReadListBegin()
	case "set":
		o.T1, o.N, err = r.ReadSetBegin()
	}
	return o, err
}

func cvEq(a, b cv) bool {
	return a.K == b.K && a.I == b.I && bytes.Equal(a.S, b.S) && a.T1 == b.T1 && a.T2 == b.T2 && a.ID == b.ID && a.N == b.N
}

type c01Case struct {
	Vals []cv   `json:"values"`
	Env  EnvCfg `json:"env"`
	Mode string `json:"mode"`                         // "mem" | "stream" | "all"
	Each bool   `json:"flush_release_each,omitempty"` // the stream writer is flushed / the stream reader released after EVERY value
	// per-Read deviations
	Choices []int `json:"env_choices,omitempty"`
	DevMax  int   `json:"dev_max,omitempty"`
}

func c01Norm(vals []cv) []cv {
	for i := range vals {
		if (vals[i].K == "string" || vals[i].K == "binary") && len(vals[i].S) == 0 && vals[i].SLen > 0 {
			vals[i].S = c01Str(vals[i].SLen)
		}
	}
	return vals
}

func c01Str(n int) []byte {
	b := make([]byte, n)
	for i := range b {
		b[i] = byte((i*13 + i/7 + 0x80) & 0xff) // arbitrary, non-UTF-8
	}
	return b
}

var c01Trail = []byte{0x7e, 0x7d}

// c01Check writes the sequence with every writer, compares with the reference bytes, and reads it back with every reader.
func c01Check(c *mc.Ctx, k c01Case, doMem, doStreamW, doStreamR bool) {
	c.Eval(1)
	vals := k.Vals
	bad := func(class, format string, a ...interface{}) {
		kk := k
		kk.Vals = make([]cv, len(vals))
		for i, v := range vals {
			kk.Vals[i] = v
			if len(v.S) > 64 {
				kk.Vals[i].SLen, kk.Vals[i].S = len(v.S), nil
			}
		}
		if envChooser != nil {
			kk.Choices, kk.DevMax = envChooser.Choices(), envDevMax
		}
		c.Violate("codec", "C01|"+class, fmt.Sprintf("values %v [%s]: ", vals, k.Env)+fmt.Sprintf(format, a...), kk)
	}
	var want []byte
	var ends []int
	for _, v := range vals {
		want = cvRef(want, v)
		ends = append(ends, len(want))
	}
	failed := false
	pi := mc.Try(func() {
		if doMem {
			// advertised lengths
			tot := 0
			for i, v := range vals {
				l := cvLength(v)
				tot += l
				if tot != ends[i] {
					bad("length-fn:"+v.K, "advertised length of %v is %d, the wire encoding has %d bytes", v, l, ends[i]-(tot-l))
					failed = true
					return
				}
			}
			// in-place writer
			buf := make([]byte, len(want)+8)
			for i := range buf {
				buf[i] = 0xCC
			}
			off := 0
			for _, v := range vals {
				n := cvWrite(buf[off:], v)
				if n != cvLength(v) {
					bad("write-return:"+v.K, "Write of %v returned %d, advertised length %d", v, n, cvLength(v))
					failed = true
					return
				}
				off += n
			}
			if !bytes.Equal(buf[:off], want) {
				bad("write-bytes:"+vals[firstVal(ends, firstDiff(buf[:off], want))].K, "in-place writer bytes differ from the wire format at +%d: got %s want %s", firstDiff(buf[:off], want), mc.Hex(buf[:off]), mc.Hex(want))
				failed = true
				return
			}
			if !bytes.Equal(buf[off:], bytes.Repeat([]byte{0xCC}, len(buf)-off)) {
				bad("write-overrun", "in-place writer wrote past the bytes it reported")
				failed = true
				return
			}
			// appending writer: onto nil and onto a prefix with spare capacity
			exact := append(make([]byte, 0, 2+len(want)), 0xAA, 0xBB)             // exactly enough spare capacity
			short := append(make([]byte, 0, 1+len(want)), 0xAA, 0xBB)             // one byte short (forces a reallocation only if need > 0)
			mid := append(make([]byte, 0, 32), bytes.Repeat([]byte{0xAB}, 20)...) // len 20 cap 32
			for _, pre := range [][]byte{nil, append(make([]byte, 0, 64), 0xAA, 0xBB), exact, short, mid} {
				ab := pre
				keepPre := append([]byte{}, pre...)
				for _, v := range vals {
					ab = cvAppend(ab, v)
				}
				if !bytes.Equal(ab[:len(pre)], keepPre) || !bytes.Equal(ab[len(pre):], want) {
					bad("append-bytes", "appending writer (prefix of %d bytes) produced %s, want prefix + %s", len(pre), mc.Hex(ab), mc.Hex(want))
					failed = true
					return
				}
			}
			// buffer reader (a second pass with the span-cache allocator switched on when strings/binaries are involved)
			in := append(append([]byte{}, want...), c01Trail...)
			hasStr := false
			for _, v := range vals {
				hasStr = hasStr || v.K == "string" || v.K == "binary"
			}
			if hasStr {
				thrift.SetSpanCache(true)
				off = 0
				for i, v := range vals {
					got, l, err := cvRead(v.K, in[off:])
					off += l
					if err != nil || !cvEq(got, stripLen(v)) || off != ends[i] {
						thrift.SetSpanCache(false)
						bad("read-span-cache:"+v.K, "with the span cache on, the Binary reader returned (%v, %d, %v) for value #%d %v", got, l, err, i, v)
						failed = true
						return
					}
				}
				thrift.SetSpanCache(false)
			}
			off = 0
			for i, v := range vals {
				got, l, err := cvRead(v.K, in[off:])
				if err != nil {
					bad("read-error:"+v.K, "Binary reader failed on value #%d %v: %v", i, v, err)
					failed = true
					return
				}
				if !cvEq(got, stripLen(v)) {
					bad("read-value:"+v.K, "Binary reader returned %v for value #%d %v", got, i, v)
					failed = true
					return
				}
				off += l
				if off != ends[i] {
					bad("read-length:"+v.K, "Binary reader consumed %d bytes for value #%d %v, want %d", l, i, v, ends[i]-(off-l))
					failed = true
					return
				}
			}
			// stream reader over the bytes-backed reader; the caller's buffer has a power-of-two capacity (as pooled receive
			// buffers have) so that a wrongful recycle of it is visible to the pool audit
			mcache.VerifReset()
			vsync.Reset()
			pc := 8
			for pc < len(in) {
				pc <<= 1
			}
			in = append(make([]byte, 0, pc), in...)
			r := bufiox.NewBytesReader(in)
			br := thrift.NewBufferReader(r)
			var decoded []cv
			defer func() {
				// decoded strings/binaries must survive reuse of the input buffer
				if failed {
					return
				}
				for i := range in {
					in[i] = 0xEE
				}
				for i, g := range decoded {
					if !cvEq(g, stripLen(vals[i])) || (g.K == "string" && g.str != string(vals[i].S)) {
						bad("bufread-value-aliases-input:"+vals[i].K, "value #%d %v decoded by BufferReader/BytesReader changed after the input buffer was overwritten", i, vals[i])
						failed = true
						return
					}
				}
			}()
			for i, v := range vals {
				got, err := cvBufRead(v.K, br)
				decoded = append(decoded, got)
				if err != nil {
					bad("bufread-error:"+v.K, "BufferReader/BytesReader failed on value #%d %v: %v", i, v, err)
					failed = true
					return
				}
				if !cvEq(got, stripLen(v)) {
					bad("bufread-value:"+v.K, "BufferReader/BytesReader returned %v for value #%d %v", got, i, v)
					failed = true
					return
				}
				if int(br.Readn()) != ends[i] {
					bad("bufread-length:"+v.K, "BufferReader/BytesReader consumed %d bytes after value #%d %v, want %d", br.Readn(), i, v, ends[i])
					failed = true
					return
				}
			}
			// decode-until-EOF: one more read past the end of the caller's buffer fails, then the reader is released;
			// nothing of the caller's may have entered the shared pool
			if _, err := br.ReadI64(); err == nil && len(c01Trail) < 8 {
				bad("bufread-error:past-end", "BufferReader/BytesReader read an i64 from the %d bytes left", len(c01Trail))
				failed = true
				return
			}
			br.Recycle()
			r.Release(nil)
			if a := mcache.VerifTakeAudit(); len(a) > 0 {
				bad("pool-audit:"+auditClass(a[0]), "after decoding from a bytes reader over the caller's buffer (len %d cap %d), reading past its end and releasing: %v", len(in), cap(in), a)
				failed = true
				return
			}
		}
		if doStreamW {
			// stream writer over the io.Writer-backed and the bytes-backed writer
			mcache.VerifReset()
			vsync.Reset()
			sink := &EnvWriter{}
			dw := bufiox.NewDefaultWriter(sink)
			bw := thrift.NewBufferWriter(dw)
			for i, v := range vals {
				if err := cvBufWrite(bw, v); err != nil {
					bad("bufwrite-error:"+v.K, "BufferWriter failed on value #%d %v: %v", i, v, err)
					failed = true
					return
				}
				if k.Each {
					if err := dw.Flush(); err != nil {
						bad("bufwrite-error", "Flush after value #%d: %v", i, err)
						failed = true
						return
					}
					continue
				}
				if dw.WrittenLen() != ends[i] {
					bad("bufwrite-length:"+v.K, "BufferWriter wrote %d bytes after value #%d %v, want %d", dw.WrittenLen(), i, v, ends[i])
					failed = true
					return
				}
			}
			if err := dw.Flush(); err != nil {
				bad("bufwrite-error", "Flush: %v", err)
				failed = true
				return
			}
			// the same writer is used for a second, different message after the Flush
			pre := cv{K: "i64", I: 0x5a5b5c5d5e5f6061}
			want2 := append(cvRef(nil, pre), want...)
			cvBufWrite(bw, pre)
			for _, v := range vals {
				cvBufWrite(bw, v)
			}
			dw.Flush()
			bw.Recycle()
			if !bytes.Equal(sink.Got[len(want):], want2) {
				bad("bufwrite-bytes-second-message", "the second message written through the same BufferWriter/DefaultWriter after a Flush differs from the wire format at +%d", firstDiff(sink.Got[len(want):], want2))
				failed = true
				return
			}
			sink.Got = sink.Got[:len(want)]
			if !bytes.Equal(sink.Got, want) {
				bad("bufwrite-bytes", "bytes delivered to the io.Writer under BufferWriter differ from the wire format at +%d (%d bytes, want %d)", firstDiff(sink.Got, want), len(sink.Got), len(want))
				failed = true
				return
			}
			if len(want) <= 1<<20 {
				// the recycled stream writer is handed out again over a bufiox.Writer implementation of the caller's own
				// (zero-copy WriteBinary, one chunk per Malloc)
				zsink := &EnvWriter{}
				zw := &zcWriter{sink: zsink}
				bwz := thrift.NewBufferWriter(bxVal{zw, 1}) // (handed over as a struct value)
				cvBufWrite(bwz, pre)
				for _, v := range vals {
					cvBufWrite(bwz, v)
				}
				zw.Flush()
				bwz.Recycle()
				if !bytes.Equal(zsink.Got, want2) {
					bad("bufwrite-bytes-custom-writer", "a recycled BufferWriter used over a caller-implemented zero-copy bufiox.Writer delivered bytes differing from the wire format at +%d (%d bytes, want %d)", firstDiff(zsink.Got, want2), len(zsink.Got), len(want2))
					failed = true
					return
				}
			}
			var target []byte
			yw := bufiox.NewBytesWriter(&target)
			bw2 := thrift.NewBufferWriter(yw)
			for _, v := range vals {
				if err := cvBufWrite(bw2, v); err != nil {
					bad("bufwrite-error:"+v.K, "BufferWriter/BytesWriter failed: %v", err)
					failed = true
					return
				}
			}
			yw.Flush()
			first := append([]byte{}, target...)
			cvBufWrite(bw2, pre)
			for _, v := range vals {
				cvBufWrite(bw2, v)
			}
			yw.Flush()
			bw2.Recycle()
			if !bytes.Equal(target, want2) && !(len(target) == len(want)+len(want2) && bytes.Equal(target[len(want):], want2)) {
				bad("bufwrite-bytes-second-message", "the second message written through the same BufferWriter/BytesWriter after a Flush is neither the message nor both messages (len %d, first difference with the wire format at +%d)", len(target), firstDiff(target, want))
				failed = true
				return
			}
			target = first
			if !bytes.Equal(target, want) {
				bad("bufwrite-bytes", "BufferWriter over a bytes writer produced bytes differing from the wire format at +%d", firstDiff(target, want))
				failed = true
				return
			}
		}
		if doStreamR {
			mcache.VerifReset()
			vsync.Reset()
			in := append(append([]byte{}, want...), c01Trail...)
			er := NewEnvReader(in, k.Env)
			dr := bufiox.NewDefaultReader(er.Src())
			br := thrift.NewBufferReader(dr)
			var sdecoded []cv
			for i, v := range vals {
				got, err := cvBufRead(v.K, br)
				sdecoded = append(sdecoded, got)
				if err != nil {
					bad("streamread-error:"+v.K, "BufferReader/DefaultReader failed on value #%d %v: %v", i, v, err)
					failed = true
					return
				}
				if !cvEq(got, stripLen(v)) {
					bad("streamread-value:"+v.K, "BufferReader/DefaultReader returned %v for value #%d %v", got, i, v)
					failed = true
					return
				}
				if k.Each {
					start := 0
					if i > 0 {
						start = ends[i-1]
					}
					if int(br.Readn()) != ends[i]-start {
						bad("streamread-length:"+v.K, "BufferReader/DefaultReader consumed %d bytes for value #%d %v (released before it), want %d", br.Readn(), i, v, ends[i]-start)
						failed = true
						return
					}
					// decoded strings/binaries are copies: they stay valid across the Release
					dr.Release(nil)
					continue
				}
				if int(br.Readn()) != ends[i] {
					bad("streamread-length:"+v.K, "BufferReader/DefaultReader consumed %d bytes after value #%d %v, want %d", br.Readn(), i, v, ends[i])
					failed = true
					return
				}
			}
			if b, err := dr.Peek(len(c01Trail)); err != nil || !bytes.Equal(b, c01Trail) {
				bad("streamread-trailing", "the bytes after the last value are not the trailing bytes (%x, %v)", b, err)
				failed = true
				return
			}
			br.Recycle()
			dr.Next(len(c01Trail)) // drain, so that Release really gives the buffer back
			dr.Release(nil)
			mcache.VerifCoTenant(true) // the reader's buffers are recycled and scribbled by another tenant
			for i, g := range sdecoded {
				if !cvEq(g, stripLen(vals[i])) || (g.K == "string" && g.str != string(vals[i].S)) {
					bad("streamread-value-aliases-buffer:"+vals[i].K, "value #%d %v decoded by BufferReader/DefaultReader changed after Release and recycling of the read buffer", i, vals[i])
					failed = true
					return
				}
			}
			if len(want) <= 4096 {
				// the same values on a stream that ends with them (a request with nothing behind it yet): once everything has
				// been delivered the reader has no reason to call Read again - on a live connection that call blocks
				er3 := NewEnvReader(want, k.Env)
				er3.Need = len(want)
				dr3 := bufiox.NewDefaultReader(er3.Src())
				br3 := thrift.NewBufferReader(dr3)
				for i, v := range vals {
					if _, err := cvBufRead(v.K, br3); err != nil {
						bad("streamread-error:"+v.K, "BufferReader/DefaultReader failed on value #%d %v of a stream that ends with the values: %v", i, v, err)
						failed = true
						return
					}
				}
				br3.Recycle()
				if er3.LateCalls > 0 {
					bad("streamread-read-after-all-values", "%d Read call(s) were issued on the source after all %d bytes of the values had been delivered (nothing follows them yet: on a live connection the call blocks)", er3.LateCalls, len(want))
					failed = true
					return
				}
				dr3.Release(nil)
			}
			if len(want) <= 1<<20 {
				// the recycled stream reader is handed out again, now over ANOTHER stream and over a bufiox.Reader
				// implementation of the caller's own: it must read that stream
				pre := cv{K: "i64", I: 0x1122334455667788}
				in2 := append(cvRef(nil, pre), want...)
				br2 := thrift.NewBufferReader(customReader{bufiox.NewDefaultReader(NewEnvReader(in2, k.Env).Src())})
				for i, v := range append([]cv{pre}, vals...) {
					got, err := cvBufRead(v.K, br2)
					if err != nil || !cvEq(got, stripLen(v)) {
						bad("streamread-second-stream:"+v.K, "a recycled BufferReader used over another stream through a caller-implemented bufiox.Reader returned (%v, %v) for value #%d %v", got, err, i, v)
						failed = true
						return
					}
				}
				br2.Recycle()
			}
		}
	})
	if pi != nil && !failed {
		vsync.Reset()
		bad("panic:"+pi.Frame, "panic: %s at %s", pi.Msg, pi.Frame)
	}
}

func stripLen(v cv) cv {
	v.SLen = 0
	if v.S != nil && len(v.S) == 0 {
		v.S = nil
	}
	return v
}

func firstVal(ends []int, off int) int {
	for i, e := range ends {
		if off < e {
			return i
		}
	}
	return len(ends) - 1
}

func init() {
	Register(&Check{
		ID: "C01", Level: "exploration",
		Rule: "whole domains: all bool/i8/i16, all 256x65536 (type byte, field id), all 256 / 256^2 container type bytes x size alphabet, (thorough) all 2^32 i32; structured alphabets for i32/i64/double (single-bit, two-bit, byte x position, byte-distinct rotations, boundaries, NaN payloads); strings/binaries of every length class incl. 4096/8192 straddles with non-UTF-8 content; all sequences of <= 3 values over a 14-kind alphabet; writers {in-place, append onto nil / prefix with spare capacity, BufferWriter over DefaultWriter and BytesWriter}; readers {Binary.Read*, BufferReader over BytesReader, BufferReader over DefaultReader under every chunk policy x end style x zero-read policy, per-Read deviations <= bound}; distinct = distinct value sequences",
		Assumptions: []string{
			"bool round trip is claimed for the two bool values (ReadBool maps every byte != 1 to false)",
			"a field header with type byte 0 is the STOP marker and is exercised through WriteFieldStop; WriteFieldBegin is swept over type bytes 1..255",
			"doubles are compared by bit pattern",
		},
		Run: c01Run,
		Replay: func(c *mc.Ctx, sub string, raw json.RawMessage) {
			replayAs(raw, func(k c01Case) {
				k.Vals = c01Norm(k.Vals)
				setAllocCap(64 << 20)
				if k.DevMax > 0 {
					envChooser, envDevMax = mc.NewReplayChooser(k.Choices), k.DevMax
					defer func() { envChooser, envDevMax = nil, 0 }()
				}
				switch k.Mode { // re-execute exactly the configuration that was recorded
				case "mem":
					c01Check(c, k, true, false, false)
				case "stream":
					c01Check(c, k, false, false, true)
				default:
					c01Check(c, k, true, true, false)
				}
			})
		},
	})
}
