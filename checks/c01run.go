package checks

import (
	"encoding/binary"
	"fmt"
	"math"

	"github.com/cloudwego/gopkg/bufiox"
	"github.com/cloudwego/gopkg/protocol/thrift"

	"verif/gen"
	"verif/mc"
)

func bitPatterns64() []uint64 {
	seen := map[uint64]bool{}
	var out []uint64
	add := func(x uint64) {
		if !seen[x] {
			seen[x] = true
			out = append(out, x)
		}
	}
	add(0)
	add(^uint64(0))
	for i := 0; i < 64; i++ {
		add(1 << i)
		add(^(uint64(1) << i))
		for j := i + 1; j < 64; j++ {
			add(1<<i | 1<<j)
		}
	}
	for pos := 0; pos < 8; pos++ {
		for v := 0; v < 256; v++ {
			add(uint64(v) << (8 * pos))
		}
	}
	x := uint64(0x0102030405060708)
	for r := 0; r < 8; r++ {
		add(x)
		x = x<<8 | x>>56
	}
	for _, p := range []uint{7, 8, 15, 16, 31, 32, 63} {
		b := uint64(1) << p
		add(b - 1)
		add(b)
		add(b + 1)
		add(-b)
		add(-b - 1)
		add(-b + 1)
	}
	return out
}

func doublePatterns() []uint64 {
	out := []uint64{math.Float64bits(0), math.Float64bits(math.Copysign(0, -1)), math.Float64bits(math.Inf(1)), math.Float64bits(math.Inf(-1)),
		1, 0x000fffffffffffff, 0x0010000000000000, math.Float64bits(math.Pi), math.Float64bits(-1.5), math.Float64bits(math.MaxFloat64), math.Float64bits(math.SmallestNonzeroFloat64)}
	for i := 0; i < 52; i++ { // NaN payloads: every single payload bit, quiet and signalling, both signs
		out = append(out, 0x7ff0000000000000|1<<i, 0xfff0000000000000|1<<i, 0x7ff8000000000000|1<<i)
	}
	return out
}

var c01StrLens = []int{0, 1, 2, 3, 4, 5, 7, 8, 99, 100, 101, 255, 256, 4091, 4092, 4093, 4095, 4096, 4097, 8187, 8188, 8189, 8191, 8192, 8193, 12288, 12289, 16384, 16385, 65535, 65536, 65537}

func c01Run(c *mc.Ctx) {
	th := c.Thorough()
	setAllocCap(64 << 20)
	envs := envConfigs(true)
	if !th {
		envs = c02Envs(true)
	}
	one := func(v cv, allEnvs bool) {
		c.Distinct(v.K, v.I, v.S, v.T1, v.T2, v.ID, v.N)
		c01Check(c, c01Case{Vals: []cv{v}, Mode: "all"}, true, true, false)
		if allEnvs {
			for _, env := range envs {
				c01Check(c, c01Case{Vals: []cv{v}, Env: env, Mode: "stream"}, false, false, true)
			}
		} else {
			c01Check(c, c01Case{Vals: []cv{v}, Env: EnvCfg{Chunk: 1, ErrWithLast: true}, Mode: "stream"}, false, false, true)
		}
	}
	// (a) whole domains
	one(cv{K: "bool", I: 0}, true)
	one(cv{K: "bool", I: 1}, true)
	one(cv{K: "stop"}, true)
	for x := 0; x < 256; x++ {
		if c.Mine() {
			one(cv{K: "byte", I: uint64(x)}, true)
		}
	}
	lo, hi := c.Span(65536)
	for x := lo; x < hi; x++ {
		one(cv{K: "i16", I: uint64(x)}, x%257 == 0)
	}
	c.Done("all bool, i8, i16 values on every writer and reader")
	// all (type byte 1..255, field id) pairs: in-memory writers/readers on all, stream ones on an id alphabet
	for t := 1; t < 256; t++ {
		for id := lo; id < hi; id++ {
			v := cv{K: "field", T1: int8(t), ID: int16(id)}
			streamToo := id%4099 == 0 || id == 0x7fff || id == 0x8000 || id == 0xffff
			if streamToo {
				one(v, false)
			} else {
				c.DistinctN(1)
				c01FieldFast(c, v)
			}
		}
	}
	c.Done("all 255 x 65536 (type byte, field id) pairs")
	sizes := []int{0, 1, 2, 255, 256, 65535, 65536, 1<<31 - 1}
	for t1 := 0; t1 < 256; t1++ {
		if !c.Mine() {
			continue
		}
		for _, n := range sizes {
			one(cv{K: "list", T1: int8(t1), N: n}, t1%16 == 0)
			one(cv{K: "set", T1: int8(t1), N: n}, t1%16 == 1)
			for t2 := 0; t2 < 256; t2++ {
				v := cv{K: "map", T1: int8(t1), T2: int8(t2), N: n}
				if t2%32 == 5 {
					one(v, false)
				} else {
					c.Distinct(v.K, v.T1, v.T2, v.N)
					c01Check(c, c01Case{Vals: []cv{v}, Mode: "mem"}, true, false, false)
				}
			}
		}
	}
	c.Done("all 256 list/set element type bytes and all 256^2 map type byte pairs x 8 sizes (0..2^31-1)")
	// (b) structured alphabets
	pats := bitPatterns64()
	for _, p := range pats {
		if !c.Mine() {
			continue
		}
		one(cv{K: "i64", I: p}, false)
		one(cv{K: "i32", I: p & 0xffffffff}, false)
	}
	for _, p := range doublePatterns() {
		if c.Mine() {
			one(cv{K: "double", I: p}, true)
		}
	}
	c.Done(fmt.Sprintf("i32/i64: %d structured bit patterns; double: %d patterns incl. every NaN payload bit", len(pats), len(doublePatterns())))
	// (c) strings / binaries of every length class
	for _, n := range c01StrLens {
		if !c.Mine() {
			continue
		}
		if c.Expired() {
			c.Incomplete("string lengths: deadline")
			return
		}
		s := c01Str(n)
		one(cv{K: "string", S: s}, n <= 16385)
		one(cv{K: "binary", S: s}, n <= 16385)
	}
	// strings beyond every internal threshold (1 MiB span, 8/16/32 MiB): in-memory and stream writers/readers
	for _, n := range []int{1<<20 + 1, 8 << 20, 8<<20 + 1, 1<<24 - 1, 1<<24 + 1, 33<<20 + 5} {
		if !c.Mine() {
			continue
		}
		v := cv{K: "binary", S: c01Str(n)}
		if n&1 == 1 {
			v.K = "string"
		}
		c.Distinct(v.K, n)
		c01Check(c, c01Case{Vals: []cv{v}, Mode: "all"}, true, true, false)
		for _, env := range []EnvCfg{{}, {Chunk: 65536, ErrWithLast: true}, {Chunk: 1<<20 + 7, ZeroReads: 1}} {
			c01Check(c, c01Case{Vals: []cv{v}, Env: env, Mode: "stream"}, false, false, true)
		}
	}
	all := make([]byte, 256)
	for i := range all {
		all[i] = byte(i)
	}
	if c.Mine() {
		one(cv{K: "string", S: all}, true)
		one(cv{K: "binary", S: all}, true)
		// text with valid multi-byte UTF-8 (2-, 3-, 4-byte characters) of 1..40 bytes: byte-wise and rune-wise loops differ here
		utf := []byte("é服😀aé服😀zz服务héllo😀😀")
		for n := 1; n <= 40 && n <= len(utf); n++ {
			one(cv{K: "string", S: utf[:n]}, n%7 == 0)
			one(cv{K: "binary", S: utf[len(utf)-n:]}, false)
		}
	}
	c.Done(fmt.Sprintf("strings/binaries of %d length classes 0..65537 with non-UTF-8 content (+ 6 lengths from 1 MiB to 33 MiB) + the 256-byte string 00..ff, every fragmentation policy up to 16385 bytes", len(c01StrLens)))
	// (d) sequences of <= 3 values over a 14-kind alphabet, written back to back and read back in order
	alpha := []cv{
		{K: "bool", I: 1}, {K: "byte", I: 0x81}, {K: "i16", I: 0x8001}, {K: "i32", I: 0x80000001}, {K: "i64", I: 0x8000000000000001},
		{K: "double", I: 0x7ff8000000000001}, {K: "string", S: []byte{}}, {K: "string", S: []byte{0xff, 0x00}}, {K: "binary", S: c01Str(4093)},
		{K: "field", T1: 11, ID: -2}, {K: "stop"}, {K: "map", T1: 11, T2: 12, N: 3}, {K: "list", T1: 15, N: 65536}, {K: "set", T1: 2, N: 1},
	}
	seqEnvs := []EnvCfg{{}, {Chunk: 1}, {Chunk: 7, ErrWithLast: true, ZeroReads: 1}, {Chunk: 4096}, {Chunk: 4097, ErrWithLast: true}}
	if th {
		seqEnvs = envs
	}
	var nseq int64
	for a := range alpha {
		for b := -1; b < len(alpha); b++ {
			for d := -1; d < len(alpha); d++ {
				if b < 0 && d >= 0 {
					continue
				}
				if !c.Mine() {
					continue
				}
				if c.Expired() {
					c.Incomplete("value sequences: deadline")
					return
				}
				vals := []cv{alpha[a]}
				if b >= 0 {
					vals = append(vals, alpha[b])
				}
				if d >= 0 {
					vals = append(vals, alpha[d])
				}
				nseq++
				c.Distinct("seq", a, b, d)
				c01Check(c, c01Case{Vals: vals, Mode: "all"}, true, true, false)
				for _, env := range seqEnvs {
					c01Check(c, c01Case{Vals: vals, Env: env, Mode: "stream"}, false, false, true)
				}
				if len(vals) >= 2 {
					c01Check(c, c01Case{Vals: vals, Env: seqEnvs[len(vals)%len(seqEnvs)], Mode: "stream", Each: true}, false, false, true)
				}
			}
		}
	}
	c.Sample("sequence", []string{alpha[8].String(), alpha[9].String(), alpha[3].String()})
	c.Done(fmt.Sprintf("all sequences of <= 3 values over a 14-kind alphabet x %d fragmentation policies", len(seqEnvs)))
	// (d2) long back-to-back runs: 0..5 buffer growths between two flushes of the stream writer / inside one reader
	var runs [][]cv
	for k := 1; k <= 12; k++ {
		var r []cv
		for i := 0; i < k; i++ {
			r = append(r, cv{K: "binary", S: c01Str(4093 + i)})
		}
		runs = append(runs, r)
	}
	for _, n := range []int{511, 512, 513, 1023, 1025, 2049, 4097, 9000} {
		var r, m []cv
		for i := 0; i < n; i++ {
			r = append(r, cv{K: "i64", I: uint64(i) * 0x0101010101010101})
			if i < 800 {
				m = append(m, cv{K: "string", S: c01Str(100 + i%7)}, cv{K: "i32", I: uint64(i)}, cv{K: "field", T1: 8, ID: int16(i)})
			}
		}
		runs = append(runs, r)
		if n == 9000 {
			runs = append(runs, m)
		}
	}
	// different strings of equal length colliding under widely used 32-bit hashes, back to back in one stream
	for _, pr := range gen.CollisionPairs() {
		runs = append(runs, []cv{{K: "string", S: []byte(pr[0])}, {K: "string", S: []byte(pr[1])}, {K: "binary", S: []byte(pr[0])}, {K: "binary", S: []byte(pr[1])}, {K: "string", S: []byte(pr[0])}})
	}
	for ri, r := range runs {
		if !c.Mine() {
			continue
		}
		c.Distinct("run", ri)
		c01Check(c, c01Case{Vals: r, Mode: "all"}, true, true, false)
		if len(r) <= 1100 { // a Flush after every value (>= 11 flushes on one writer), a Release after every value
			c01Check(c, c01Case{Vals: r, Mode: "all", Each: true}, true, true, false)
			for _, env := range []EnvCfg{{}, {Chunk: 1}, {Chunk: 4097, ErrWithLast: true}} {
				if env.Chunk == 1 && len(r) > 20 {
					continue
				}
				c01Check(c, c01Case{Vals: r, Env: env, Mode: "stream", Each: true}, false, false, true)
			}
		}
		for _, env := range []EnvCfg{{}, {Chunk: 4097, ErrWithLast: true}, {Chunk: 100, ZeroReads: 1}} {
			c01Check(c, c01Case{Vals: r, Env: env, Mode: "stream"}, false, false, true)
		}
	}
	c.Done(fmt.Sprintf("%d long back-to-back runs (up to 72 KiB, 0..5 buffer growths between flushes)", len(runs)))
	// (e) per-Read deviations on single values and pairs (streams <= 64 bytes)
	bound := 1
	if th {
		bound = 2
	}
	small := []cv{alpha[0], alpha[2], alpha[3], alpha[4], alpha[5], alpha[7], {K: "binary", S: c01Str(20)}, alpha[9], alpha[11], alpha[12]}
	var dev int64
	for a := range small {
		for b := -1; b < len(small); b++ {
			if !c.Mine() {
				continue
			}
			vals := []cv{small[a]}
			if b >= 0 {
				vals = append(vals, small[b])
			}
			for _, wl := range []bool{false, true} {
				st := mc.Explore(bound, 0, c.Expired, func(ch *mc.Chooser) {
					envChooser, envDevMax = ch, 24
					c01Check(c, c01Case{Vals: vals, Env: EnvCfg{ErrWithLast: wl}, Mode: "stream"}, false, false, true)
					envChooser, envDevMax = nil, 0
				})
				dev += st.Executions
				if st.Capped {
					c.Incomplete("per-Read deviations: deadline")
					return
				}
			}
		}
	}
	c.Count("deviation-executions", dev)
	c.Done(fmt.Sprintf("per-Read deviations <= %d on the first 24 reads for all singles and pairs over 10 small values", bound))
	if th {
		c01AllI32(c)
	}
}

// c01FieldFast: the in-memory writers and readers only, without allocation (16M pairs).
func c01FieldFast(c *mc.Ctx, v cv) {
	c.Eval(1)
	var buf [8]byte
	B := thrift.Binary
	n := B.WriteFieldBegin(buf[:], v.T1, v.ID)
	ab := B.AppendFieldBegin(buf[4:4], v.T1, v.ID)
	t, id, l, err := B.ReadFieldBegin(buf[:3])
	w0, w1, w2 := byte(v.T1), byte(uint16(v.ID)>>8), byte(v.ID)
	if n != 3 || buf[0] != w0 || buf[1] != w1 || buf[2] != w2 || len(ab) != 3 || ab[0] != w0 || ab[1] != w1 || ab[2] != w2 || err != nil || t != v.T1 || id != v.ID || l != 3 {
		c01Check(c, c01Case{Vals: []cv{v}, Mode: "mem"}, true, false, false) // produces the detailed violation
	}
}

// c01AllI32: all 2^32 i32 values through every writer and reader (thorough tier).
func c01AllI32(c *mc.Ctx) {
	lo, hi := c.Span(1 << 32)
	B := thrift.Binary
	const batch = 1 << 14
	var wire [4 * batch]byte
	var tmp [8]byte
	for base := lo; base < hi; base += batch {
		if c.Expired() {
			c.Incomplete("all 2^32 i32 values: deadline")
			return
		}
		n := int64(batch)
		if base+n > hi {
			n = hi - base
		}
		// in-memory writers and reader, value by value
		for i := int64(0); i < n; i++ {
			x := uint32(base + i)
			binary.BigEndian.PutUint32(wire[4*i:], x)
			w := B.WriteI32(tmp[:], int32(x))
			ab := B.AppendI32(tmp[4:4], int32(x))
			got, l, err := B.ReadI32(wire[4*i : 4*i+4])
			if w != 4 || binary.BigEndian.Uint32(tmp[:4]) != x || len(ab) != 4 || binary.BigEndian.Uint32(ab) != x || err != nil || l != 4 || uint32(got) != x {
				c01Check(c, c01Case{Vals: []cv{{K: "i32", I: uint64(x)}}, Mode: "mem"}, true, false, false)
			}
		}
		// stream writer and stream reader, one batch per buffer
		var target []byte
		yw := bufiox.NewBytesWriter(&target)
		bw := thrift.NewBufferWriter(yw)
		for i := int64(0); i < n; i++ {
			bw.WriteI32(int32(uint32(base + i)))
		}
		yw.Flush()
		bw.Recycle()
		okw := len(target) == int(4*n)
		for i := int64(0); okw && i < 4*n; i++ {
			okw = target[i] == wire[i]
		}
		r := bufiox.NewBytesReader(wire[:4*n])
		br := thrift.NewBufferReader(r)
		okr := true
		var badx uint32
		for i := int64(0); i < n; i++ {
			got, err := br.ReadI32()
			if err != nil || uint32(got) != uint32(base+i) {
				okr, badx = false, uint32(base+i)
				break
			}
		}
		br.Recycle()
		r.Release(nil)
		if !okw || !okr {
			c01Check(c, c01Case{Vals: []cv{{K: "i32", I: uint64(badx)}}, Mode: "all"}, true, true, false)
			c.Violate("codec", "C01|i32-batch", fmt.Sprintf("stream writer/reader disagree with the wire format in the batch starting at %#x (writer ok=%v reader ok=%v)", base, okw, okr), c01Case{Vals: []cv{{K: "i32", I: uint64(base)}}})
		}
		c.Eval(n)
	}
	c.DistinctN(hi - lo)
	c.Done("all 2^32 i32 values on the in-place, appending and stream writers and on both readers")
}
