package checks

import (
	"bytes"
	"encoding/hex"
	"encoding/json"
	"fmt"

	"verif/gen"
	"verif/mc"
	"verif/ref"
)

// C02 — Skip consumes exactly one well-formed value, on every skipper.

type c02Case struct {
	Choices  []int  `json:"env_choices,omitempty"`
	DevMax   int    `json:"dev_max,omitempty"`
	Tree     string `json:"tree"`
	Type     int8   `json:"type"`
	ValueHex string `json:"value_hex"`
	TrailHex string `json:"trailing_hex"`
	Skipper  string `json:"skipper"`
	Env      EnvCfg `json:"env"`
	// huge values are regenerated on replay instead of being stored
	HugeShape int `json:"huge_shape,omitempty"`
	HugeN     int `json:"huge_n,omitempty"`
}

// c02Huge builds the encoding of a string (shape 0), a list<byte> (1) or a struct holding a map<bool,byte> (2) with n bytes/elements.
func c02Huge(shape, n int) ([]byte, int8) {
	sz := []byte{byte(n >> 24), byte(n >> 16), byte(n >> 8), byte(n)}
	switch shape {
	case 0:
		return append(append(make([]byte, 0, n+4), sz...), stream(n)...), ref.STRING
	case 1:
		b := append(append(make([]byte, 0, n+5), ref.BYTE), sz...)
		for i := 0; i < n; i++ {
			b = append(b, byte(i&0x7f))
		}
		return b, ref.LIST
	}
	b := append(append(make([]byte, 0, 2*n+10), ref.MAP, 0, 1, ref.BOOL, ref.BYTE), sz...)
	for i := 0; i < n; i++ {
		b = append(b, byte(i&1), byte(i&0x7f))
	}
	return append(b, 0), ref.STRUCT
}

var c02Trailers = [][]byte{nil, {0x00}, {0xff, 0xff, 0xff}, {0x0b, 0x00, 0x00, 0x00, 0x01, 0x41}}

func c02One(c *mc.Ctx, prop string, k c02Case, enc, trail []byte) {
	c.Eval(1)
	input := make([]byte, 0, len(enc)+len(trail))
	input = append(append(input, enc...), trail...)
	if c.Replay && k.DevMax > 0 {
		envChooser, envDevMax = mc.NewReplayChooser(k.Choices), k.DevMax
		defer func() { envChooser, envDevMax = nil, 0 }()
	}
	skNeed = len(enc)
	o := runSkipper(k.Skipper, input, k.Type, k.Env, true)
	skNeed = 0
	bad := func(class, format string, a ...interface{}) {
		kk := k
		kk.ValueHex, kk.TrailHex = hex.EncodeToString(enc), hex.EncodeToString(trail)
		if k.HugeShape > 0 {
			kk.ValueHex = ""
		}
		if envChooser != nil {
			kk.Choices, kk.DevMax = envChooser.Choices(), envDevMax
		}
		c.Violate("valid", fmt.Sprintf("%s|%s|%s", prop, k.Skipper, class),
			fmt.Sprintf("%s on well-formed %s (%d bytes, type %d) followed by %d trailing bytes [%s]: ", k.Skipper, k.Tree, len(enc), k.Type, len(trail), k.Env)+fmt.Sprintf(format, a...), kk)
	}
	switch {
	case o.Panic != nil:
		bad("panic:"+o.Panic.Frame, "panic: %s at %s", o.Panic.Msg, o.Panic.Frame)
		return
	case o.StackMismatch:
		bad("stack-held-input-differs", "%v", o.Err)
		return
	case o.AllocCap:
		bad("alloc", "asked the allocator for more than the cap while skipping a %d-byte value", len(enc))
		return
	case !o.OK:
		bad("rejected", "rejected a complete well-formed value: %v", o.Err)
		return
	}
	if o.N != len(enc) {
		bad("length", "consumed/reported %d bytes, the value is %d bytes long", o.N, len(enc))
		return
	}
	if o.HasBytes && !bytes.Equal(o.Bytes, enc) {
		bad("bytes", "returned bytes differ from the value's encoding at +%d (returned %d bytes)", firstDiff(o.Bytes, enc), len(o.Bytes))
		return
	}
	if o.ReadLen >= 0 && o.ReadLen != len(enc) {
		bad("readlen", "ReadLen after the call is %d, want %d", o.ReadLen, len(enc))
		return
	}
	if o.NextOK {
		want := -1
		if len(trail) > 0 {
			want = int(trail[0])
		}
		if o.NextByte != want {
			bad("next-byte", "the next byte readable after the skip is %d, want %d (first trailing byte; -1 = none)", o.NextByte, want)
			return
		}
	}
	if o.LateReads > 0 {
		bad("read-after-value-complete", "issued %d Read call(s) on the source after all %d bytes of the value had been delivered: on a live connection that blocks until the peer sends something else (data beyond the value is asked for)", o.LateReads, len(enc))
		return
	}
	if k.Skipper == skReaderSkip && o.SrcOut != len(enc) {
		bad("over-consumed-source", "pulled %d bytes from the plain io.Reader, the value is %d bytes long: nothing beyond the value may be consumed", o.SrcOut, len(enc))
	}
}

func c02Envs(thorough bool) []EnvCfg {
	var r []EnvCfg
	chunks := []int{0, 1, 7, 4097}
	zs := []int{0, 1}
	if true {
		chunks = []int{0, 1, 2, 3, 7, 100, 4095, 4096, 4097}
		zs = []int{0, 1, 2}
	}
	for _, ch := range chunks {
		for _, wl := range []bool{false, true} {
			for _, z := range zs {
				// a source is under no obligation to repeat its error: half of the policies answer a Read after the error with garbage
				r = append(r, EnvCfg{Chunk: ch, ErrWithLast: wl, ZeroReads: z, AfterErr: (ch + z) % 2})
			}
		}
	}
	// a source that answers 30 Reads in a row with (0, nil) before every piece of data (well below any give-up threshold a
	// reader may reasonably have; bufio's is 100)
	r = append(r, EnvCfg{Chunk: 7, ZeroReads: 30}, EnvCfg{Chunk: 4097, ZeroReads: 30, ErrWithLast: true, AfterErr: 1})
	// sources that also expose Len() = bytes readable right now (connections, ring buffers): a reader that consults it
	// must not mistake "nothing more right now" for "nothing more"
	for _, ch := range []int{1, 100, 4097} {
		for _, wl := range []bool{false, true} {
			r = append(r, EnvCfg{Chunk: ch, ErrWithLast: wl, Len: true, AfterErr: ch % 2})
		}
	}
	return r
}

func c02Run(c *mc.Ctx) {
	th := c.Thorough()
	setAllocCap(64 << 20)
	trees := gen.Trees(true, 63)
	envs := c02Envs(th)
	full := []EnvCfg{{}}
	for ti := range trees {
		if !c.Mine() {
			continue
		}
		if c.Expired() {
			c.Incomplete("valid trees x trailers x skippers x fragmentations: deadline")
			return
		}
		tr := &trees[ti]
		enc := ref.Encode(nil, &tr.V)
		if r := ref.Skip(enc, tr.V.T); !r.OK || r.N != len(enc) {
			panic("generator/reference disagreement on " + tr.Name)
		}
		c.Distinct("tree", enc, tr.V.T)
		if ti%97 == 0 {
			c.Sample("tree", map[string]interface{}{"name": tr.Name, "type": tr.V.T, "bytes": mc.Hex(enc)})
		}
		for _, trail := range c02Trailers {
			for _, sk := range allSkippers {
				es := full
				if isStreamSkipper(sk) {
					es = envs
				}
				for _, env := range es {
					// quick: byte-at-a-time policies only on values up to 600 bytes (plus the dedicated big trees with chunk>=7)
					if !th && env.Chunk > 0 && env.Chunk < 7 && len(enc) > 600 {
						continue
					}
					c02One(c, "C02", c02Case{Tree: tr.Name, Type: tr.V.T, Skipper: sk, Env: env}, enc, trail)
				}
			}
		}
	}
	c.Done(fmt.Sprintf("all %d value trees (11x11 maps, 11 list/set element types, sizes 0..3/many, 121 struct field pairs, chains to depth 63, strings to 9000 bytes) x 4 trailers x 11 skipper/reader combinations x %d fragmentation policies", len(trees), len(envs)))
	// per-Read deviations (1 byte, empty read, half, all-with-EOF) on the first 24 reads, values <= 64 bytes
	bound := 1
	if th {
		bound = 2
	}
	var devExec int64
	for ti := range trees {
		tr := &trees[ti]
		enc := ref.Encode(nil, &tr.V)
		if len(enc) > 64 || len(enc) < 2 {
			continue
		}
		if !c.Mine() {
			continue
		}
		for _, trail := range c02Trailers[:3] {
			for _, sk := range streamSkippers {
				for _, wl := range []bool{false, true} {
					st := mc.Explore(bound, 0, c.Expired, func(ch *mc.Chooser) {
						envChooser, envDevMax = ch, 24
						c02One(c, "C02", c02Case{Tree: tr.Name, Type: tr.V.T, Skipper: sk, Env: EnvCfg{ErrWithLast: wl}}, enc, trail)
						envChooser, envDevMax = nil, 0
					})
					devExec += st.Executions
					if st.Capped {
						c.Incomplete(fmt.Sprintf("per-Read deviations <= %d: deadline", bound))
						return
					}
				}
			}
		}
	}
	c.Count("deviation-executions", devExec)
	c.Done(fmt.Sprintf("per-Read deviations <= %d on the first 24 reads, all value trees <= 64 bytes x 3 trailers x 3 stream skippers x 2 end styles", bound))
	// values whose length / element count needs the top byte of the 4-byte size field
	for _, n := range []int{1<<24 - 1, 1 << 24, 1<<24 + 1, 1<<24 + 1<<16 + 3} {
		for shape := 0; shape < 3; shape++ {
			if !c.Mine() {
				continue
			}
			enc, t := c02Huge(shape, n)
			if r := ref.Skip(enc, t); !r.OK || r.N != len(enc) {
				panic("huge value: generator/reference disagreement")
			}
			name := fmt.Sprintf("huge value: shape %d with %d bytes/elements", shape, n)
			c.Distinct("huge", shape, n)
			for _, sk := range allSkippers {
				env := EnvCfg{}
				if sk == skReaderSkip {
					env = EnvCfg{Chunk: 1 << 20, ErrWithLast: true}
				}
				c02One(c, "C02", c02Case{Tree: name, Type: t, Skipper: sk, Env: env, HugeShape: shape + 1, HugeN: n}, enc, c02Trailers[2])
			}
		}
	}
	c.Done("strings of 2^24-1 .. 2^24+2^16+3 bytes and lists/maps with that many elements, on every skipper")
	// decoder histories: several Next calls on one decoder, values of different size classes
	c02Histories(c)
}

func init() {
	Register(&Check{
		ID: "C02", Level: "exploration",
		Rule:        "every typed value tree of the generator (all 121 map key/value type pairs x sizes 0..2, all 11 list/set element types x sizes 0..3, 121 ordered struct field pairs, level-2 'many' containers, nesting chains 1..63 for every container kind with fixed and string leaves, strings from 0 to 9000 bytes) x 4 trailers x 11 skipper/reader combinations x every fragmentation policy (chunk size, zero reads, final data with or before EOF); distinct = distinct (encoding,type)",
		Assumptions: []string{"quick tier: 1..3-byte chunk policies only on values <= 600 bytes; thorough: all"},
		Run:         c02Run,
		Replay: func(c *mc.Ctx, sub string, raw json.RawMessage) {
			if sub == "history" {
				replayAs(raw, func(k c02Hist) { c02HistOne(c, k) })
				return
			}
			replayAs(raw, func(k c02Case) {
				enc, _ := hex.DecodeString(k.ValueHex)
				if k.HugeShape > 0 {
					enc, _ = c02Huge(k.HugeShape-1, k.HugeN)
				}
				tr, _ := hex.DecodeString(k.TrailHex)
				setAllocCap(64 << 20)
				c02One(c, "C02", k, enc, tr)
			})
		},
	})
}
