package checks

import (
	"bytes"
	"fmt"

	"github.com/bytedance/gopkg/lang/mcache"
	"github.com/cloudwego/gopkg/bufiox"
	"github.com/cloudwego/gopkg/protocol/thrift"
	vsync "github.com/cloudwego/gopkg/verifshim/vsync"

	"verif/gen"
	"verif/mc"
	"verif/ref"
)

// Decoder histories: all sequences of <= 3 Next calls on ONE decoder over values of different size
// classes, then Release and a second decoder obtained from the pool (scratch buffer / rn reuse).

type c02Hist struct {
	Decoder  string `json:"decoder"`
	Seq      []int  `json:"value_indices"`
	Env      EnvCfg `json:"env"`
	CoTenant int    `json:"co_tenant,omitempty"` // C09: adversarial pool co-tenant between operations (1 keeps, 2 frees again)
	Prop     string `json:"prop,omitempty"`
	RelEach  bool   `json:"release_after_each_next,omitempty"` // the reader is Released after every Next (the decoder stays)
	PreSkipN int    `json:"skipn_before_each_next,omitempty"`  // io.Reader decoder only: this many filler bytes precede every value and are taken with the exported SkipN right before Next
	NoTrail  bool   `json:"first_round_without_trailing_byte,omitempty"` // round 0: the stream ends with the last value, so its final bytes may arrive together with the source's error; round 1 is a healthy stream again
	ViaReset bool   `json:"second_round_via_reset,omitempty"`            // bytes / io.Reader decoders: round 1 re-targets the SAME decoder with Reset instead of Release + New
}

// c02HistN: the values every history product ranges over; index c02HistN is one more value, larger than 1 MiB, used in
// dedicated sequences only (c02HugeSeqs).
const c02HistN = 6

var c02HistVals []ref.Value

func c02HistValues() []ref.Value {
	if c02HistVals != nil {
		return c02HistVals
	}
	big := ref.Value{T: ref.STRING, S: bytes.Repeat([]byte{0x31, 0x32, 0x33}, 3000)}
	mid := ref.Value{T: ref.STRING, S: bytes.Repeat([]byte{0x41}, 4097)}
	// strings whose end falls just below a doubled buffer size once a small value has been consumed before them
	near8k := ref.Value{T: ref.STRING, S: bytes.Repeat([]byte{0x42}, 8180)}
	near16k := ref.Value{T: ref.STRING, S: bytes.Repeat([]byte{0x43}, 16376)}
	huge := ref.Value{T: ref.STRING, S: stream(1<<20 + 333)}
	c02HistVals = []ref.Value{
		gen.Small(ref.LIST, 0),
		big,
		{T: ref.STRUCT, F: []ref.Field{{ID: 1, V: gen.Small(ref.MAP, 0)}, {ID: 2, V: gen.Small(ref.I64, 0)}}},
		mid,
		near8k,
		near16k,
		huge,
	}
	return c02HistVals
}

// c02HugeSeqs: sequences around a value larger than 1 MiB (beyond every retention threshold of pooled scratch buffers)
var c02HugeSeqs = [][]int{{6}, {6, 0}, {0, 6}, {6, 1}, {6, 6}, {3, 6, 0}, {6, 5, 6}}

var c02Poison = []byte{0x55, 0x00, 0x01, 0x02, 0x03, 0x04, 0x05, 0x06}

type nexter interface {
	Next(t thrift.TType) ([]byte, error)
}

func c02HistOne(c *mc.Ctx, k c02Hist) {
	c.Eval(1)
	vals := c02HistValues()
	mcache.VerifReset()
	vsync.Reset()
	prop := k.Prop
	if prop == "" {
		prop = "C02"
	}
	bad := func(class, format string, a ...interface{}) {
		c.Violate("history", fmt.Sprintf("%s|%s|history|%s", prop, k.Decoder, class), fmt.Sprintf("%s, Next sequence over values %v [%s, co-tenant %d]: ", k.Decoder, k.Seq, k.Env, k.CoTenant)+fmt.Sprintf(format, a...), k)
	}
	cot := func() {
		if k.CoTenant != 0 {
			mcache.VerifCoTenant(k.CoTenant == 1)
		}
	}
	var heldB *thrift.BytesSkipDecoder
	var heldR *thrift.ReaderSkipDecoder
	pi := mc.Try(func() {
		for round := 0; round < 2; round++ { // second round: decoder re-acquired from the pool
			var stream []byte
			var encs [][]byte
			for _, vi := range k.Seq {
				var e []byte
				if vi < 0 {
					e = c02Poison // read first as a STRUCT (fails: unknown field type), then as an I64 (well-formed)
				} else {
					e = ref.Encode(nil, &vals[vi])
				}
				encs = append(encs, e)
				for f := 0; f < k.PreSkipN; f++ {
					stream = append(stream, byte(0xf0+f))
				}
				stream = append(stream, e...)
			}
			if !k.NoTrail || round == 1 {
				stream = append(stream, 0x7e) // one trailing byte
			}
			var d nexter
			var r bufiox.Reader
			var er *EnvReader
			var release func()
			switch k.Decoder {
			case skDecStream:
				er = NewEnvReader(stream, k.Env)
				r = bufiox.NewDefaultReader(er.Src())
				if round == 1 {
					r = customReader{r} // the pooled decoder is handed out again, now over a reader type of the caller's own
				}
				sd := thrift.NewSkipDecoder(r)
				d, release = sd, sd.Release
			case skDecBytesR:
				r = bufiox.NewBytesReader(stream)
				sd := thrift.NewSkipDecoder(r)
				d, release = sd, sd.Release
			case skBytesSkip:
				sd := heldB
				if sd != nil {
					sd.Reset(stream)
				} else {
					sd = thrift.NewBytesSkipDecoder(stream)
				}
				d, release = sd, sd.Release
				if k.ViaReset && round == 0 {
					heldB, release = sd, func() {}
				}
			case skReaderSkip:
				er = NewEnvReader(stream, k.Env)
				sd := heldR
				if sd != nil {
					sd.Reset(er.Src())
				} else {
					sd = thrift.NewReaderSkipDecoder(er.Src())
				}
				d, release = sd, sd.Release
				if k.ViaReset && round == 0 {
					heldR, release = sd, func() {}
				}
			}
			pos := 0
			var kept [][]byte
			var last []byte
			for i, vi := range k.Seq {
				cot()
				if last != nil && !bytes.Equal(last, encs[i-1]) {
					bad("retained-changed", "round %d, the result of Next #%d (valid until the next Next) changed before the next Next was called", round, i-1)
					return
				}
				tt := thrift.TType(ref.I64)
				if vi >= 0 {
					tt = thrift.TType(vals[vi].T)
				} else if _, perr := d.Next(thrift.STRUCT); perr == nil {
					bad("poison-accepted", "round %d: a struct with an unknown field type was accepted", round)
					return
				}
				if k.PreSkipN > 0 {
					// the decoder's exported SkipN is used directly (legal: it is part of its interface), then Next
					fb, ferr := d.(interface{ SkipN(int) ([]byte, error) }).SkipN(k.PreSkipN)
					if ferr != nil || len(fb) != k.PreSkipN || fb[0] != 0xf0 {
						bad("skipn", "round %d, SkipN(%d) before Next #%d returned (%x, %v)", round, k.PreSkipN, i, fb, ferr)
						return
					}
					pos += k.PreSkipN
				}
				b, err := d.Next(tt)
				if err != nil {
					bad("rejected", "round %d, Next #%d rejected a complete value: %v", round, i, err)
					return
				}
				if !bytes.Equal(b, encs[i]) {
					bad("bytes", "round %d, Next #%d returned %d bytes differing from the value (%d bytes) at +%d", round, i, len(b), len(encs[i]), firstDiff(b, encs[i]))
					return
				}
				pos += len(encs[i])
				if k.RelEach && r != nil {
					if r.ReadLen() != len(encs[i]) {
						bad("readlen", "round %d, after Next #%d ReadLen=%d, want %d (released before)", round, i, r.ReadLen(), len(encs[i]))
						return
					}
					r.Release(nil) // results handed out so far are no longer valid
					kept, last = kept[:0], nil
					pos = 0
					continue
				}
				if r != nil && r.ReadLen() != pos {
					bad("readlen", "round %d, after Next #%d ReadLen=%d, want %d", round, i, r.ReadLen(), pos)
					return
				}
				if er != nil && k.Decoder == skReaderSkip && er.BytesOut != pos {
					bad("over-consumed-source", "round %d, after Next #%d the io.Reader handed out %d bytes, want %d", round, i, er.BytesOut, pos)
					return
				}
				if k.Decoder == skReaderSkip {
					last = b
				}
				if k.Decoder != skReaderSkip { // results backed by the reader / input stay valid until Release
					kept = append(kept, b)
					cot()
					for j, kb := range kept {
						if !bytes.Equal(kb, encs[j]) {
							bad("retained-changed", "round %d, result of Next #%d changed after Next #%d (before Release)", round, j, i)
							return
						}
					}
				}
			}
			cot()
			if last != nil && !bytes.Equal(last, encs[len(encs)-1]) {
				bad("retained-changed", "round %d, the last result changed before Release", round)
				return
			}
			for j, kb := range kept {
				if !bytes.Equal(kb, encs[j]) {
					bad("retained-changed", "round %d, result of Next #%d changed before Release", round, j)
					return
				}
			}
			release()
			if r != nil {
				r.Release(nil)
			}
			cot()
			if k.CoTenant != 0 {
				mcache.VerifAuditCoTenant()
			}
			if a := mcache.VerifTakeAudit(); len(a) > 0 {
				bad("pool-audit:"+auditClass(a[0]), "buffer pool audit: %v", a)
				return
			}
		}
	})
	if pi != nil {
		vsync.Reset()
		if pi.IsAllocCap() {
			bad("alloc", "allocation cap hit")
		} else {
			bad("panic", "panic: %s at %s", pi.Msg, pi.Frame)
		}
	}
}

func c02Histories(c *mc.Ctx) {
	nv := c02HistN
	envs := []EnvCfg{{}, {Chunk: 4097}, {Chunk: 100, ErrWithLast: true}, {Chunk: 1, ZeroReads: 1}}
	var seqs [][]int
	for a := 0; a < nv; a++ {
		seqs = append(seqs, []int{a})
		for b := 0; b < nv; b++ {
			seqs = append(seqs, []int{a, b})
			for d := 0; d < nv; d++ {
				seqs = append(seqs, []int{a, b, d})
			}
		}
	}
	seqs = append(seqs, c02HugeSeqs...)
	// a Next that fails part-way (peek-only decoders consume nothing), then well-formed values on the SAME decoder
	var pseqs [][]int
	for a := 0; a < nv; a++ {
		pseqs = append(pseqs, []int{-1, a}, []int{a, -1, a}, []int{-1, -1, a})
	}
	for _, dec := range []string{skDecStream, skDecBytesR, skBytesSkip, skReaderSkip} {
		all := seqs
		if dec == skDecStream || dec == skDecBytesR {
			all = append(append([][]int{}, seqs...), pseqs...)
		}
		for _, seq := range all {
			es := envs
			if dec == skDecBytesR || dec == skBytesSkip {
				es = envs[:1]
			}
			for _, env := range es {
				if !c.Mine() {
					continue
				}
				if c.Expired() {
					c.Incomplete("decoder histories: deadline")
					return
				}
				c.Distinct("hist", dec, fmt.Sprint(seq), env.String())
				c02HistOne(c, c02Hist{Decoder: dec, Seq: seq, Env: env})
				if (dec == skDecStream || dec == skDecBytesR) && len(seq) >= 2 {
					c02HistOne(c, c02Hist{Decoder: dec, Seq: seq, Env: env, RelEach: true})
				}
			}
		}
	}
	// a first stream that ENDS with its last value (final bytes may arrive together with the source's error), then a second,
	// healthy stream through the decoder re-acquired from the pool or re-targeted with Reset: nothing of the first stream's
	// end may be remembered
	for _, seq := range seqs {
		if len(seq) > 2 {
			continue
		}
		for _, env := range append(append([]EnvCfg{}, envs...), EnvCfg{ErrWithLast: true}, EnvCfg{Chunk: 7, ErrWithLast: true, Err: 1}) {
			for _, viaReset := range []bool{false, true} {
				if !c.Mine() {
					continue
				}
				if c.Expired() {
					c.Incomplete("decoder histories (stream ends with the value): deadline")
					return
				}
				c.Distinct("hist-notrail", fmt.Sprint(seq), env.String(), viaReset)
				c02HistOne(c, c02Hist{Decoder: skReaderSkip, Seq: seq, Env: env, NoTrail: true, ViaReset: viaReset})
				if env == envs[0] {
					c02HistOne(c, c02Hist{Decoder: skBytesSkip, Seq: seq, Env: env, NoTrail: true, ViaReset: viaReset})
				}
			}
		}
	}
	// the io.Reader decoder: filler bytes taken with SkipN right before every Next
	for _, seq := range [][]int{{0}, {1}, {0, 1}, {3, 0, 1}, {2, 2}, {6, 0}} {
		for _, n := range []int{1, 3, 4097} {
			for _, env := range envs[:3] {
				if c.Mine() {
					c.Distinct("hist-skipn", fmt.Sprint(seq), n, env.String())
					c02HistOne(c, c02Hist{Decoder: skReaderSkip, Seq: seq, Env: env, PreSkipN: n})
				}
			}
		}
	}
	c.Sample("decoder-history", c02Hist{Decoder: skReaderSkip, Seq: []int{0, 1, 0}, Env: envs[2]})
	c.Done("decoder histories: all sequences of <=3 Next calls over 6 values of different size classes (+ 7 sequences around a value > 1 MiB) x 4 decoders x fragmentation, twice (pool reuse)")
}
