package checks

import (
	"context"
	"encoding/hex"
	"encoding/json"
	"fmt"
	"strings"
	"time"

	"github.com/cloudwego/gopkg/protocol/thrift"
	"github.com/cloudwego/gopkg/protocol/thrift/base"
	"github.com/cloudwego/gopkg/protocol/thrift/unknownfields"
	"github.com/cloudwego/gopkg/protocol/ttheader"

	"verif/arena"
	"verif/gen"
	"verif/mc"
	"verif/ref"
)

// C03 — decoders never panic, never read outside the slice, never over-report.
// Every buffer-based entry point is called on every input of the enumerations in three placements:
// flush against a PROT_NONE guard page at the end, at the start of a page after a guard page with
// spare capacity filled with 0x00, and the same with 0xff; results must be identical, no panic or
// fault may occur, and a success may not report more than len(input) bytes.

type entryPoint struct {
	name string
	// run returns a digest of the result, the consumed length it reports (-1 if it reports none) and success.
	run func(b []byte, t int8) (digest string, n int, ok bool)
	// capped: the entry point allocates the declared size; inputs are filtered through over()
	over func(b []byte) bool
}

const declaredCap = 65536

func overAll(b []byte) bool {
	return ref.MaxDeclared(b, func(int, int16, int8) bool { return true }) > declaredCap
}

func overTopMap(id int16) func(b []byte) bool {
	return func(b []byte) bool {
		return ref.MaxDeclared(b, func(level int, top int16, tt int8) bool { return level == 1 && top == id && tt == ref.MAP }) > declaredCap
	}
}

// message body offset for the *Msg entry points
func msgBody(b []byte) []byte {
	if len(b) < 8 {
		return nil
	}
	n := int(uint32(b[4])<<24 | uint32(b[5])<<16 | uint32(b[6])<<8 | uint32(b[7]))
	if n < 0 || 8+n+4 > len(b) {
		return nil
	}
	return b[8+n+4:]
}

func errDigest(err error) string {
	if err == nil {
		return "ok"
	}
	return "err"
}

var c03Entries = []entryPoint{
	{name: "Binary.ReadBool", run: func(b []byte, _ int8) (string, int, bool) {
		v, n, err := thrift.Binary.ReadBool(b)
		return fmt.Sprint(v, errDigest(err)), n, err == nil
	}},
	{name: "Binary.ReadByte", run: func(b []byte, _ int8) (string, int, bool) {
		v, n, err := thrift.Binary.ReadByte(b)
		return fmt.Sprint(v, errDigest(err)), n, err == nil
	}},
	{name: "Binary.ReadI16", run: func(b []byte, _ int8) (string, int, bool) {
		v, n, err := thrift.Binary.ReadI16(b)
		return fmt.Sprint(v, errDigest(err)), n, err == nil
	}},
	{name: "Binary.ReadI32", run: func(b []byte, _ int8) (string, int, bool) {
		v, n, err := thrift.Binary.ReadI32(b)
		return fmt.Sprint(v, errDigest(err)), n, err == nil
	}},
	{name: "Binary.ReadI64", run: func(b []byte, _ int8) (string, int, bool) {
		v, n, err := thrift.Binary.ReadI64(b)
		return fmt.Sprint(v, errDigest(err)), n, err == nil
	}},
	{name: "Binary.ReadDouble", run: func(b []byte, _ int8) (string, int, bool) {
		v, n, err := thrift.Binary.ReadDouble(b)
		return fmt.Sprint(v, errDigest(err)), n, err == nil
	}},
	{name: "Binary.ReadString", run: func(b []byte, _ int8) (string, int, bool) {
		v, n, err := thrift.Binary.ReadString(b)
		return fmt.Sprintf("%x %s", v, errDigest(err)), n, err == nil
	}},
	{name: "Binary.ReadBinary", run: func(b []byte, _ int8) (string, int, bool) {
		v, n, err := thrift.Binary.ReadBinary(b)
		return fmt.Sprintf("%x %s", v, errDigest(err)), n, err == nil
	}},
	{name: "Binary.ReadFieldBegin", run: func(b []byte, _ int8) (string, int, bool) {
		t, id, n, err := thrift.Binary.ReadFieldBegin(b)
		return fmt.Sprint(t, id, errDigest(err)), n, err == nil
	}},
	{name: "Binary.ReadMapBegin", run: func(b []byte, _ int8) (string, int, bool) {
		k, v, sz, n, err := thrift.Binary.ReadMapBegin(b)
		return fmt.Sprint(k, v, sz, errDigest(err)), n, err == nil
	}},
	{name: "Binary.ReadListBegin", run: func(b []byte, _ int8) (string, int, bool) {
		e, sz, n, err := thrift.Binary.ReadListBegin(b)
		return fmt.Sprint(e, sz, errDigest(err)), n, err == nil
	}},
	{name: "Binary.ReadSetBegin", run: func(b []byte, _ int8) (string, int, bool) {
		e, sz, n, err := thrift.Binary.ReadSetBegin(b)
		return fmt.Sprint(e, sz, errDigest(err)), n, err == nil
	}},
	{name: "Binary.ReadMessageBegin", run: func(b []byte, _ int8) (string, int, bool) {
		name, t, seq, n, err := thrift.Binary.ReadMessageBegin(b)
		return fmt.Sprintf("%x %d %d %s", name, t, seq, errDigest(err)), n, err == nil
	}},
	{name: "Binary.Skip", run: func(b []byte, t int8) (string, int, bool) {
		n, err := thrift.Binary.Skip(b, thrift.TType(t))
		return errDigest(err), n, err == nil
	}},
	{name: "Base.FastRead", over: overTopMap(6), run: func(b []byte, _ int8) (string, int, bool) {
		var v base.Base
		n, err := v.FastRead(b)
		return fmt.Sprintf("%q %q %q %d %v %s", v.LogID, v.Caller, v.Addr, len(v.Extra), v.Extra == nil, errDigest(err)), n, err == nil
	}},
	{name: "BaseResp.FastRead", over: overTopMap(3), run: func(b []byte, _ int8) (string, int, bool) {
		var v base.BaseResp
		n, err := v.FastRead(b)
		return fmt.Sprintf("%q %d %d %v %s", v.StatusMessage, v.StatusCode, len(v.Extra), v.Extra == nil, errDigest(err)), n, err == nil
	}},
	{name: "ApplicationException.FastRead", run: func(b []byte, _ int8) (string, int, bool) {
		v := thrift.NewApplicationException(0, "")
		n, err := v.FastRead(b)
		return fmt.Sprintf("%q %d %s", v.Msg(), v.TypeID(), errDigest(err)), n, err == nil
	}},
	{name: "FastUnmarshal(Base)", over: overTopMap(6), run: func(b []byte, _ int8) (string, int, bool) {
		var v base.Base
		err := thrift.FastUnmarshal(b, &v)
		return fmt.Sprintf("%q %q %q %d %s", v.LogID, v.Caller, v.Addr, len(v.Extra), errDigest(err)), -1, err == nil
	}},
	{name: "UnmarshalFastMsg(Base)", over: func(b []byte) bool { return overTopMap(6)(msgBody(b)) }, run: func(b []byte, _ int8) (string, int, bool) {
		var v base.Base
		m, seq, err := thrift.UnmarshalFastMsg(b, &v)
		_, isApp := err.(*thrift.ApplicationException)
		return fmt.Sprintf("%q %d %q %d %v", m, seq, v.LogID, len(v.Extra), isApp) + errDigest(err), -1, err == nil
	}},
	{name: "ConvertUnknownFields", over: overAll, run: func(b []byte, _ int8) (string, int, bool) {
		fs, err := unknownfields.ConvertUnknownFields(b)
		return fmt.Sprintf("%d %s", len(fs), errDigest(err)), -1, err == nil
	}},
	{name: "ttheader.DecodeFromBytes", run: func(b []byte, _ int8) (string, int, bool) {
		p, err := ttheader.DecodeFromBytes(context.Background(), b)
		if err != nil {
			return "err", -1, false
		}
		return fmt.Sprintf("%d %d %d %d %d %d %d", p.Flags, p.SeqID, p.ProtocolID, len(p.IntInfo), len(p.StrInfo), p.HeaderLen, p.PayloadLen), p.HeaderLen, true
	}},
	// the frame sniffer that takes bytes of ANY length (it has its own length guard; IsTTHeader, which documents that it
	// wants the 8-byte flag buffer, is not an arbitrary-bytes entry point)
	{name: "ttheader.IsStreaming", run: func(b []byte, _ int8) (string, int, bool) {
		return fmt.Sprint(ttheader.IsStreaming(b)), -1, true
	}},
}

var c03EntryByName = func() map[string]*entryPoint {
	m := map[string]*entryPoint{}
	for i := range c03Entries {
		m[c03Entries[i].name] = &c03Entries[i]
	}
	return m
}()

type c03Case struct {
	Span     bool   `json:"span_cache,omitempty"`
	Entry    string `json:"entry"`
	Type     int8   `json:"type,omitempty"`
	InputHex string `json:"input_hex"`
	Desc     string `json:"desc,omitempty"`
}

var c03Arena *arena.Arena

// c03SpanEntries: entry points that copy strings out of the input and therefore go through the span-cache allocator
// when it is switched on; these run under both settings.
var c03SpanEntries = map[string]bool{"Binary.ReadString": true, "Binary.ReadBinary": true, "Binary.ReadMessageBegin": true, "Base.FastRead": true, "BaseResp.FastRead": true,
	"ApplicationException.FastRead": true, "FastUnmarshal(Base)": true, "UnmarshalFastMsg(Base)": true, "ConvertUnknownFields": true}

// c03Call runs one entry point on one input in the three placements (and under both allocator settings where they matter).
func c03Call(c *mc.Ctx, ep *entryPoint, in []byte, t int8, desc string) {
	c03CallSpan(c, ep, in, t, desc, false)
	if c03SpanEntries[ep.name] {
		thrift.SetSpanCache(true)
		c03CallSpan(c, ep, in, t, desc, true)
		thrift.SetSpanCache(false)
	}
}

func c03CallSpan(c *mc.Ctx, ep *entryPoint, in []byte, t int8, desc string, span bool) {
	if span {
		desc += ", span cache on"
	}
	if c03Arena == nil {
		c03Arena = arena.New(40)
	}
	if ep.over != nil && ep.over(in) {
		c.Count("skipped-declared-size-over-cap:"+ep.name, 1)
		return
	}
	if len(in) > c03Arena.Cap()-64 {
		return
	}
	c.Eval(1)
	bad := func(class, format string, a ...interface{}) {
		c.Violate("entry", fmt.Sprintf("C03|%s|%s", ep.name, class),
			fmt.Sprintf("%s(type %d) on %s (%s): ", ep.name, t, mc.Hex(in), desc)+fmt.Sprintf(format, a...),
			c03Case{Span: span, Entry: ep.name, Type: t, InputHex: hex.EncodeToString(in), Desc: desc})
	}
	var d [3]string
	var n [3]int
	var ok [3]bool
	for pl := 0; pl < 3; pl++ {
		var b []byte
		switch pl {
		case 0:
			b = c03Arena.AtEnd(in)
		case 1:
			b = c03Arena.AtStart(in, 48, 0x00)
		default:
			b = c03Arena.AtStart(in, 48, 0xff)
		}
		pi := mc.Try(func() { d[pl], n[pl], ok[pl] = ep.run(b, t) })
		if pi != nil {
			if pi.IsAllocCap() {
				bad("alloc", "asked for an allocation above the cap")
				return
			}
			place := []string{"input flush against a guard page", "spare capacity 0x00", "spare capacity 0xff"}[pl]
			cls := "panic"
			if _, isFault := pi.Value.(interface{ Addr() uintptr }); isFault {
				cls = "fault-outside-slice"
			}
			bad(cls+":"+pi.Frame+":"+pi.Class, "%s [%s]: %s at %s", cls, place, pi.Msg, pi.Frame)
			return
		}
		if ok[pl] && n[pl] > len(in) {
			bad("over-report", "reported success consuming %d bytes of a %d-byte input", n[pl], len(in))
			return
		}
		if ok[pl] && n[pl] < -1 {
			bad("negative-length", "reported success with a negative length %d", n[pl])
			return
		}
	}
	if d[0] != d[1] || d[1] != d[2] || n[0] != n[1] || n[1] != n[2] || ok[0] != ok[1] || ok[1] != ok[2] {
		bad("depends-on-bytes-outside-slice", "result depends on memory outside the slice: guard-page %q/%d, spare=00 %q/%d, spare=ff %q/%d", d[0], n[0], d[1], n[1], d[2], n[2])
	}
}

// sweepEntries runs the named entry points on every string over alpha up to maxLen.
func sweepEntries(c *mc.Ctx, alpha []byte, maxLen int, label string, names []string) bool {
	buf := make([]byte, 0, 16)
	for n := 0; n <= maxLen; n++ {
		total := int64(1)
		for i := 0; i < n; i++ {
			total *= int64(len(alpha))
		}
		lo, hi := c.Span(total)
		for k := lo; k < hi; k++ {
			if k%2048 == 0 && c.Expired() {
				c.Incomplete(label + ": deadline")
				return false
			}
			s := gen.NthString(alpha, n, k, buf[:0])
			for _, nm := range names {
				c03Call(c, c03EntryByName[nm], s, 0, label)
			}
		}
		c.DistinctN(hi - lo)
	}
	return true
}

func c03Run(c *mc.Ctx) {
	th := c.Thorough()
	setAllocCap(64 << 20)
	// (1) all strings over the grammar alphabet (and short strings over the full alphabet) on every entry point;
	//     Binary.Skip with every one of the 256 type bytes
	L := 5
	fullLen := 2
	if th {
		L, fullLen = 6, 3
	}
	fullAlpha := make([]byte, 256)
	for i := range fullAlpha {
		fullAlpha[i] = byte(i)
	}
	sweep := func(alpha []byte, maxLen int, label string) bool {
		buf := make([]byte, 0, 16)
		for n := 0; n <= maxLen; n++ {
			total := int64(1)
			for i := 0; i < n; i++ {
				total *= int64(len(alpha))
			}
			lo, hi := c.Span(total)
			for k := lo; k < hi; k++ {
				if k%2048 == 0 && c.Expired() {
					c.Incomplete(label + ": deadline")
					return false
				}
				s := gen.NthString(alpha, n, k, buf[:0])
				for i := range c03Entries {
					ep := &c03Entries[i]
					if ep.name == "Binary.Skip" {
						for t := -128; t <= 127; t++ {
							if len(alpha) == 256 && n == maxLen && !ref.ValidType(int8(t)) && t != 0 && t != -1 && t != 16 {
								continue // longest full-alphabet strings: valid types + 3 invalid representatives
							}
							c03Call(c, ep, s, int8(t), label)
						}
						continue
					}
					c03Call(c, ep, s, 0, label)
				}
			}
			c.DistinctN(hi - lo)
		}
		return true
	}
	if !sweep(gen.GrammarAlphabet, L, fmt.Sprintf("grammar-alphabet strings up to length %d", L)) {
		return
	}
	c.Done(fmt.Sprintf("all strings over the 12-byte grammar alphabet up to length %d x 21 entry points (Binary.Skip x all 256 type bytes)", L))
	if !sweep(fullAlpha, fullLen, fmt.Sprintf("full-alphabet strings up to length %d", fullLen)) {
		return
	}
	c.Done(fmt.Sprintf("all strings over the full byte alphabet up to length %d x 21 entry points", fullLen))

	// (1b) the TTHeader entry points on all strings up to length 9 over the bytes of the frame magic and flags
	if !sweepEntries(c, []byte{0x00, 0x10, 0x01, 0xff}, 9, "frame-magic alphabet strings up to length 9", []string{"ttheader.IsStreaming", "ttheader.DecodeFromBytes"}) {
		return
	}
	c.Done("ttheader.IsStreaming / DecodeFromBytes: all strings up to length 9 over {00,10,01,ff}")
	// (2) truncations, structural perturbations and splices of valid encodings, per entry point family
	c03Structured(c, th)
	// (3) call histories on one skip decoder over complete / truncated / wrong-typed input
	c03Histories(c)
}

func init() {
	Register(&Check{
		ID: "C03", Level: "exploration", Thorough: 45 * time.Minute,
		Rule: "every buffer-based entry point (13 Binary.Read*, Binary.Skip x 256 type bytes, Base/BaseResp/ApplicationException.FastRead, FastUnmarshal, UnmarshalFastMsg, ConvertUnknownFields, ttheader.DecodeFromBytes) on: all strings over the grammar alphabet up to length L, all strings over the full alphabet up to length 2 (3 thorough), every truncation, every single structural perturbation (type tags x all 256 values, sizes, ids) and pairwise splices of generated valid encodings (value trees, Base/BaseResp/exception structs with unknown fields, message envelopes, unknown-field sequences, TTHeader frames); each call in 3 placements (guard page after the slice, spare capacity 0x00 / 0xff); distinct = distinct inputs",
		Assumptions: []string{
			"entry points that allocate the declared size (Base/BaseResp map, unknown-field containers) are only driven with declared sizes <= 65536, as the statement allows; skipped inputs are counted",
			"guard pages detect reads that cross the slice boundary by any amount in both directions; reads inside spare capacity are detected by result independence from its content",
			"stack exhaustion of the unbounded recursion in the unknown-field converter needs > 10 MB of nested input and is outside the explored sizes",
		},
		Run: c03Run,
		// a read outside the slice sees whatever lies there: the same defect may fault on one execution and panic on another
		SameFinding: func(a, b string) bool {
			pa, pb := strings.SplitN(a, "|", 4), strings.SplitN(b, "|", 4)
			if len(pa) < 3 || len(pb) < 3 || pa[1] != pb[1] {
				return false
			}
			mem := func(s string) bool {
				return strings.HasPrefix(s, "panic") || strings.HasPrefix(s, "fault") || strings.HasPrefix(s, "depends-on") || strings.HasPrefix(s, "over-report") || strings.HasPrefix(s, "negative-length")
			}
			return mem(pa[2]) && mem(pb[2])
		},
		Replay: func(c *mc.Ctx, sub string, raw json.RawMessage) {
			if sub == "dechist" {
				setAllocCap(64 << 20)
				replayAs(raw, func(k c03Hist) { c03HistOne(c, k) })
				return
			}
			replayAs(raw, func(k c03Case) {
				if k.Span {
					thrift.SetSpanCache(true)
					defer thrift.SetSpanCache(false)
				}
				b, _ := hex.DecodeString(k.InputHex)
				setAllocCap(64 << 20)
				ep := c03EntryByName[k.Entry]
				if ep == nil {
					panic("unknown entry point " + k.Entry)
				}
				c03Call(c, ep, b, k.Type, k.Desc)
			})
		},
	})
}
