package checks

import (
	"encoding/hex"
	"fmt"

	"github.com/bytedance/gopkg/lang/mcache"
	"github.com/cloudwego/gopkg/bufiox"
	"github.com/cloudwego/gopkg/protocol/thrift"
	vsync "github.com/cloudwego/gopkg/verifshim/vsync"

	"verif/mc"
	"verif/ref"
)

// Histories on ONE skip decoder over arbitrary (complete, truncated, wrong-typed) input: every sequence of up to three
// exported calls - Next with several requested types, the decoders' own SkipN with non-negative counts, Reset / Grow
// where the type has them - must terminate with results or errors.  What a decoder holds after a FAILED call is not
// specified; that the following call does not panic, and that the values returned by Next together are no longer than
// the input, is.
type c03Hist struct {
	Decoder  string `json:"decoder"`
	InputHex string `json:"input_hex"`
	Ops      []int  `json:"ops"`
	Desc     string `json:"desc"`
}

type c03Op struct {
	name string
	skip int   // SkipN(skip) when >= 0 (-2: SkipN(len(input)+1))
	t    int16 // Next(t) when skip == -1
	kind int   // 0 Next/SkipN, 1 Reset to the same input, 2 Grow(5)
}

var c03Ops = []c03Op{
	{name: "Next(STRUCT)", skip: -1, t: int16(ref.STRUCT)},
	{name: "Next(STRING)", skip: -1, t: int16(ref.STRING)},
	{name: "Next(I64)", skip: -1, t: int16(ref.I64)},
	{name: "Next(LIST)", skip: -1, t: int16(ref.LIST)},
	{name: "Next(MAP)", skip: -1, t: int16(ref.MAP)},
	{name: "Next(0x80)", skip: -1, t: 0x80},
	{name: "SkipN(0)", skip: 0},
	{name: "SkipN(1)", skip: 1},
	{name: "SkipN(3)", skip: 3},
	{name: "SkipN(len+1)", skip: -2},
	{name: "Reset(input)", kind: 1},
	{name: "Grow(5)", kind: 2},
}

var c03HistDecoders = []string{skBytesSkip, skDecBytesR, skReaderSkip, skDecStream}

func c03HistOne(c *mc.Ctx, k c03Hist) {
	c.Eval(1)
	in, _ := hex.DecodeString(k.InputHex)
	names := make([]string, len(k.Ops))
	for i, o := range k.Ops {
		names[i] = c03Ops[o].name
	}
	bad := func(class, format string, a ...interface{}) {
		c.Violate("dechist", fmt.Sprintf("C03|%s|history|%s", k.Decoder, class), fmt.Sprintf("%s over %s (%s), calls %v: ", k.Decoder, mc.Hex(in), k.Desc, names)+fmt.Sprintf(format, a...), k)
	}
	mcache.VerifReset()
	vsync.Reset()
	step := -1
	pi := mc.Try(func() {
		input := append([]byte{}, in...)
		var next func(t thrift.TType) ([]byte, error)
		var skipn func(n int) ([]byte, error)
		var reset, grow, release func()
		var r bufiox.Reader
		switch k.Decoder {
		case skBytesSkip:
			d := thrift.NewBytesSkipDecoder(input)
			next, skipn, release = d.Next, d.SkipN, d.Release
			reset = func() { d.Reset(input) }
		case skDecBytesR:
			r = bufiox.NewBytesReader(input)
			d := thrift.NewSkipDecoder(r)
			next, skipn, release = d.Next, d.SkipN, d.Release
		case skDecStream:
			r = bufiox.NewDefaultReader(NewEnvReader(input, EnvCfg{Chunk: 3}).Src())
			d := thrift.NewSkipDecoder(r)
			next, skipn, release = d.Next, d.SkipN, d.Release
		case skReaderSkip:
			d := thrift.NewReaderSkipDecoder(NewEnvReader(input, EnvCfg{Chunk: 2}).Src())
			next, skipn, release = d.Next, d.SkipN, d.Release
			reset = func() { d.Reset(NewEnvReader(input, EnvCfg{}).Src()) }
			grow = func() { d.Grow(5) }
		}
		total := 0
		for i, oi := range k.Ops {
			step = i
			o := c03Ops[oi]
			var b []byte
			var err error
			switch {
			case o.kind == 1:
				if reset == nil {
					continue
				}
				reset()
				total = 0
				continue
			case o.kind == 2:
				if grow == nil {
					continue
				}
				grow()
				continue
			case o.skip == -1:
				b, err = next(thrift.TType(o.t))
			case o.skip == -2:
				b, err = skipn(len(in) + 1)
				if err == nil {
					bad("skipn-beyond-input", "call #%d: SkipN(%d) succeeded on an input of %d bytes", i, len(in)+1, len(in))
					return
				}
			default:
				b, err = skipn(o.skip)
				if err == nil && len(b) != o.skip {
					bad("skipn-length", "call #%d: SkipN(%d) returned %d bytes and no error", i, o.skip, len(b))
					return
				}
			}
			if err == nil && len(b) > len(in) {
				bad("over-report", "call #%d returned %d bytes, the input has %d", i, len(b), len(in))
				return
			}
			if err == nil && o.skip == -1 {
				// values handed out by Next are consumed (a direct SkipN may only look ahead, depending on the decoder)
				total += len(b)
				if total > len(in) {
					bad("over-report", "call #%d: the values returned by Next add up to %d bytes, the input has %d", i, total, len(in))
					return
				}
			}
		}
		release()
		if r != nil {
			r.Release(nil)
		}
	})
	if pi != nil {
		vsync.Reset()
		if pi.IsAllocCap() {
			return // asks for the declared size: covered (and bounded) by C08's allocation rule
		}
		bad("panic", "call #%d panicked: %s at %s", step, pi.Msg, pi.Frame)
	}
}

func c03Histories(c *mc.Ctx) {
	vals := []struct {
		name string
		v    ref.Value
	}{
		{"struct{1:i64,2:string}", ref.Value{T: ref.STRUCT, F: []ref.Field{{ID: 1, V: ref.Value{T: ref.I64, I: 0x0102030405060708}}, {ID: 2, V: strV("ab")}}}},
		{"struct{1:struct{1:i32}}", ref.Value{T: ref.STRUCT, F: []ref.Field{{ID: 1, V: ref.Value{T: ref.STRUCT, F: []ref.Field{{ID: 1, V: ref.Value{T: ref.I32, I: 7}}}}}}}},
		{"list<string>[a,bc]", ref.Value{T: ref.LIST, Elem: ref.STRING, L: []ref.Value{strV("a"), strV("bc")}}},
		{"map<i16,i64>{1:2}", ref.Value{T: ref.MAP, Key: ref.I16, Elem: ref.I64, L: []ref.Value{{T: ref.I16, I: 1}, {T: ref.I64, I: 2}}}},
		{"string abcd", strV("abcd")},
	}
	var seqs [][]int
	n := len(c03Ops)
	for a := 0; a < n; a++ {
		seqs = append(seqs, []int{a})
		for b := 0; b < n; b++ {
			seqs = append(seqs, []int{a, b})
			for d := 0; d < n; d++ {
				seqs = append(seqs, []int{a, b, d})
			}
		}
	}
	for _, v := range vals {
		enc := ref.Encode(nil, &v.v)
		for cut := 0; cut <= len(enc); cut++ {
			if !c.Mine() {
				continue
			}
			in := enc[:cut]
			desc := fmt.Sprintf("%s cut to %d of %d bytes", v.name, cut, len(enc))
			if cut == len(enc) {
				in = append(append([]byte{}, enc...), enc...) // complete, followed by a second copy
				desc = v.name + " twice"
			}
			hx := hex.EncodeToString(in)
			for _, dec := range c03HistDecoders {
				for _, s := range seqs {
					c03HistOne(c, c03Hist{Decoder: dec, InputHex: hx, Ops: s, Desc: desc})
				}
				c.Distinct("dechist", dec, hx)
			}
		}
	}
	c.Done(fmt.Sprintf("skip-decoder histories: every sequence of <= 3 calls over %d exported operations (Next x 6 types, SkipN x 4 counts, Reset, Grow) on one decoder x 4 decoder/reader combinations x every truncation of 5 encodings (and each complete one twice): no panic, no over-report", n))
}
