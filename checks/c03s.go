package checks

import (
	"fmt"

	"github.com/cloudwego/gopkg/protocol/ttheader"

	"verif/gen"
	"verif/mc"
	"verif/ref"
)

// ---- builders of valid encodings shared by C03 / C11 / C12 / C17 ----

func strV(s string) ref.Value { return ref.Value{T: ref.STRING, S: []byte(s)} }

func strMapV(kv ...string) ref.Value {
	m := ref.Value{T: ref.MAP, Key: ref.STRING, Elem: ref.STRING, L: []ref.Value{}}
	for _, s := range kv {
		m.L = append(m.L, strV(s))
	}
	return m
}

// baseStruct builds the wire struct of base.Base: 1 LogID, 2 Caller, 3 Addr, 6 Extra (optional).
func baseStruct(logid, caller, addr string, extra *ref.Value, unknown ...ref.Field) ref.Value {
	v := ref.Value{T: ref.STRUCT, F: []ref.Field{{ID: 1, V: strV(logid)}, {ID: 2, V: strV(caller)}, {ID: 3, V: strV(addr)}}}
	if extra != nil {
		v.F = append(v.F, ref.Field{ID: 6, V: *extra})
	}
	v.F = append(v.F, unknown...)
	return v
}

// baseRespStruct: 1 StatusMessage, 2 StatusCode (i32), 3 Extra (optional).
func baseRespStruct(msg string, code int32, extra *ref.Value, unknown ...ref.Field) ref.Value {
	v := ref.Value{T: ref.STRUCT, F: []ref.Field{{ID: 1, V: strV(msg)}, {ID: 2, V: ref.Value{T: ref.I32, I: uint64(uint32(code))}}}}
	if extra != nil {
		v.F = append(v.F, ref.Field{ID: 3, V: *extra})
	}
	v.F = append(v.F, unknown...)
	return v
}

// exceptionStruct: 1 message (string), 2 type (i32).
func exceptionStruct(msg string, t int32, unknown ...ref.Field) ref.Value {
	v := ref.Value{T: ref.STRUCT, F: []ref.Field{{ID: 1, V: strV(msg)}, {ID: 2, V: ref.Value{T: ref.I32, I: uint64(uint32(t))}}}}
	v.F = append(v.F, unknown...)
	return v
}

type namedEnc struct {
	name   string
	family string // tree | struct | msg | fields | frame
	t      int8
	enc    []byte
	marks  []gen.Mark
}

func c03BaseSet() []namedEnc {
	var out []namedEnc
	addV := func(name, fam string, v ref.Value) {
		enc, ms := gen.Marks(&v)
		out = append(out, namedEnc{name, fam, v.T, enc, ms})
	}
	ex := strMapV("k1", "v1", "", "")
	empty := strMapV()
	unk := []ref.Field{{ID: 100, V: gen.Small(ref.LIST, 0)}, {ID: -1, V: gen.Small(ref.MAP, 0)}, {ID: 1, V: gen.Small(ref.I32, 0)}}
	addV("Base{}", "struct", baseStruct("", "", "", nil))
	addV("Base{extra}", "struct", baseStruct("log", "caller", "addr", &ex))
	addV("Base{empty extra, unknown}", "struct", baseStruct("l", "c", "a", &empty, unk...))
	addV("Base{unknown first}", "struct", ref.Value{T: ref.STRUCT, F: append(append([]ref.Field{}, unk[:2]...), baseStruct("x", "y", "z", &ex).F...)})
	addV("BaseResp{}", "struct", baseRespStruct("", 0, nil))
	addV("BaseResp{extra,unknown}", "struct", baseRespStruct("msg", -1, &ex, unk[0], ref.Field{ID: 2, V: strV("id2-as-string")}))
	addV("Exception{}", "struct", exceptionStruct("boom", 6))
	addV("Exception{unknown}", "struct", exceptionStruct("", 0x01020304, ref.Field{ID: 3, V: gen.Small(ref.STRUCT, 0)}, ref.Field{ID: 1, V: gen.Small(ref.I64, 0)}))
	addV("struct{all types}", "struct", ref.Value{T: ref.STRUCT, F: func() []ref.Field {
		var fs []ref.Field
		for i, t := range ref.T11 {
			fs = append(fs, ref.Field{ID: int16(10 + i), V: gen.Small(t, i)})
		}
		return fs
	}()})
	// messages
	for i, m := range []struct {
		name string
		typ  int32
		body ref.Value
	}{{"call", 1, baseStruct("l", "c", "a", &ex)}, {"reply", 2, baseRespStruct("ok", 0, nil)}, {"exc", 3, exceptionStruct("bad", 1)}, {"", 4, baseStruct("", "", "", nil)}, {"long-method-name-0123456789", 0xffff, exceptionStruct("", 0, unk[0])}} {
		hdr := ref.MessageBegin(nil, m.name, m.typ, int32(i*0x01010101))
		enc, ms := gen.Marks(&m.body)
		for k := range ms {
			ms[k].Off += len(hdr)
		}
		ms = append([]gen.Mark{{Off: 4, Kind: "size"}}, ms...)
		out = append(out, namedEnc{"msg/" + m.name, "msg", ref.STRUCT, append(hdr, enc...), ms})
	}
	// unknown-field sequences (struct body without the STOP)
	for i, v := range []ref.Value{
		{T: ref.STRUCT, F: []ref.Field{{ID: 1, V: gen.Small(ref.LIST, 0)}, {ID: 2, V: gen.Small(ref.MAP, 1)}}},
		{T: ref.STRUCT, F: []ref.Field{{ID: 1, V: ref.Value{T: ref.STRUCT, F: []ref.Field{{ID: 1, V: gen.Small(ref.MAP, 0)}, {ID: 2, V: gen.Small(ref.I32, 0)}}}}}},
		{T: ref.STRUCT, F: []ref.Field{{ID: 7, V: gen.Small(ref.SET, 0)}, {ID: 8, V: gen.Small(ref.DOUBLE, 0)}, {ID: 9, V: strV("s")}}},
	} {
		enc, ms := gen.Marks(&v)
		out = append(out, namedEnc{fmt.Sprintf("fields/%d", i), "fields", ref.STRUCT, enc[:len(enc)-1], ms[:len(ms)-1]})
	}
	// TTHeader frames
	frames := []struct {
		name string
		secs []ref.TTHSection
	}{
		{"frame/empty", nil},
		{"frame/str", []ref.TTHSection{{Kind: 0x01, Str: [][2]string{{"k", "v"}, {"", ""}}}}},
		{"frame/int", []ref.TTHSection{{Kind: 0x10, Int: []ref.TTHIntKV{{K: 1, V: "x"}, {K: 0xffff, V: ""}}}}},
		{"frame/acl", []ref.TTHSection{{Kind: 0x11, ACL: "token"}}},
		{"frame/all", []ref.TTHSection{{Kind: 0x11, ACL: "t"}, {Kind: 0x01, Str: [][2]string{{"key", "val"}}}, {Kind: 0x00}, {Kind: 0x10, Int: []ref.TTHIntKV{{K: 27, V: "3"}}}}},
	}
	for _, f := range frames {
		enc := ref.TTHBuildRaw(0x0002, 0x01020304, 0, nil, f.secs, 100, -1)
		var ms []gen.Mark
		// structural bytes of a frame: size field (2 bytes at 12), protocol id, transform count, every info byte up to 24
		for off := 12; off < len(enc) && off < 40; off++ {
			ms = append(ms, gen.Mark{Off: off, Kind: "type"})
		}
		out = append(out, namedEnc{f.name, "frame", 0, enc, ms})
	}
	// value trees
	for _, tr := range gen.Trees(false, 3) {
		v := tr.V
		if len(out) >= 60 && !ref.IsContainer(v.T) {
			continue
		}
		enc, ms := gen.Marks(&v)
		out = append(out, namedEnc{"tree/" + tr.Name, "tree", v.T, enc, ms})
	}
	return out
}

func familyEntries(fam string) []string {
	switch fam {
	case "tree":
		return []string{"Binary.Skip", "Binary.ReadString", "Binary.ReadBinary"}
	case "struct":
		return []string{"Binary.Skip", "Base.FastRead", "BaseResp.FastRead", "ApplicationException.FastRead", "FastUnmarshal(Base)", "ConvertUnknownFields"}
	case "msg":
		return []string{"Binary.ReadMessageBegin", "UnmarshalFastMsg(Base)", "Base.FastRead"}
	case "fields":
		return []string{"ConvertUnknownFields", "Binary.Skip", "Base.FastRead"}
	case "frame":
		return []string{"ttheader.DecodeFromBytes", "ttheader.IsStreaming"}
	}
	return nil
}

func c03Structured(c *mc.Ctx, th bool) {
	_ = ttheader.GDPRToken
	set := c03BaseSet()
	c.Sample("structured", map[string]interface{}{"encoding": set[2].name, "bytes": mc.Hex(set[2].enc)})
	call := func(fam string, in []byte, t int8, desc string) {
		c.Distinct(in)
		for _, en := range familyEntries(fam) {
			c03Call(c, c03EntryByName[en], in, t, desc)
		}
	}
	for i := range set {
		if !c.Mine() {
			continue
		}
		if c.Expired() {
			c.Incomplete("truncations/perturbations: deadline")
			return
		}
		e := &set[i]
		for cut := 0; cut <= len(e.enc); cut++ {
			call(e.family, e.enc[:cut], e.t, "prefix of "+e.name)
		}
		gen.Perturb(e.enc, e.marks, true, func(b []byte, desc string) bool {
			call(e.family, b, e.t, e.name+" with "+desc)
			return true
		})
	}
	c.Done(fmt.Sprintf("every prefix and every single structural perturbation (type bytes x 256, sizes x 14, ids x 5) of %d valid encodings", len(set)))
	if th {
		// all pairs of perturbations at two different marks (deviation bound 2 on the input), boundary values only;
		// sharded per (encoding, first mark) so that the big encodings spread over all workers
		for i := range set {
			e := &set[i]
			for a := range e.marks {
				if !c.Mine() {
					continue
				}
				if c.Expired() {
					c.Incomplete("pairs of perturbations: deadline")
					return
				}
				gen.Perturb(e.enc, e.marks[a:a+1], false, func(b1 []byte, d1 string) bool {
					cp := append([]byte{}, b1...)
					gen.Perturb(cp, e.marks[a+1:], false, func(b2 []byte, d2 string) bool {
						call(e.family, b2, e.t, e.name+" with "+d1+" and "+d2)
						return true
					})
					return !c.Expired()
				})
			}
		}
		c.Done(fmt.Sprintf("all pairs of boundary-value perturbations at two different structural positions of %d valid encodings", len(set)))
	}
	// containers whose element count needs 16 bits and more: well-formed, every perturbation of the header, sampled cuts
	for _, n := range []int{32767, 32768, 32769, 65535, 65536} {
		for shape := 0; shape < 3; shape++ {
			if !c.Mine() {
				continue
			}
			var v ref.Value
			switch shape {
			case 0:
				v = ref.Value{T: ref.LIST, Elem: ref.BYTE}
				for i := 0; i < n; i++ {
					v.L = append(v.L, ref.Value{T: ref.BYTE, I: uint64(i & 0x7f)})
				}
			case 1:
				v = ref.Value{T: ref.SET, Elem: ref.BOOL}
				for i := 0; i < n; i++ {
					v.L = append(v.L, ref.Value{T: ref.BOOL, I: uint64(i & 1)})
				}
			default:
				v = ref.Value{T: ref.MAP, Key: ref.BYTE, Elem: ref.BOOL}
				for i := 0; i < n; i++ {
					v.L = append(v.L, ref.Value{T: ref.BYTE, I: uint64(i & 0x7f)}, ref.Value{T: ref.BOOL, I: 1})
				}
			}
			st := ref.Value{T: ref.STRUCT, F: []ref.Field{{ID: 9, V: v}, {ID: 10, V: gen.Small(ref.I32, 1)}}}
			enc, ms := gen.Marks(&st)
			name := fmt.Sprintf("struct{9: %d-element container (shape %d), 10: i32}", n, shape)
			for cut := 0; cut <= len(enc); cut++ {
				if cut > 24 && cut < len(enc)-24 && cut%4093 != 0 {
					continue
				}
				call("struct", enc[:cut], ref.STRUCT, "prefix of "+name)
				call("fields", enc[:cut], ref.STRUCT, "prefix of "+name)
			}
			var head []gen.Mark
			for _, m := range ms {
				if m.Off < 16 || m.Off > len(enc)-16 {
					head = append(head, m)
				}
			}
			gen.Perturb(enc, head, true, func(b []byte, desc string) bool {
				call("struct", b, ref.STRUCT, name+" with "+desc)
				return true
			})
		}
	}
	c.Done("well-formed containers of 32767..65536 elements inside a struct: sampled prefixes, every perturbation of the header bytes")
	// splices: prefix of A up to a structural position + suffix of B from a structural position
	lim := 40
	if th {
		lim = len(set)
		if lim > 120 {
			lim = 120
		}
	}
	if lim > len(set) {
		lim = len(set)
	}
	buf := make([]byte, 0, 4096)
	for a := 0; a < lim; a++ {
		for b := 0; b < lim; b++ {
			if !c.Mine() {
				continue
			}
			if c.Expired() {
				c.Incomplete("splices: deadline")
				return
			}
			A, B := &set[a], &set[b]
			for _, ma := range A.marks {
				for _, mb := range B.marks {
					buf = append(append(buf[:0], A.enc[:ma.Off]...), B.enc[mb.Off:]...)
					call(A.family, buf, A.t, fmt.Sprintf("splice %s[:%d] + %s[%d:]", A.name, ma.Off, B.name, mb.Off))
				}
			}
		}
	}
	c.Done(fmt.Sprintf("splices at structural positions over all ordered pairs of %d encodings", lim))
}
