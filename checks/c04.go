package checks

import (
	"encoding/json"
	"fmt"
	"time"

	"verif/mc"
)

// C04 — buffered reader delivers the source bytes exactly, in order.
// Explicit-state search (E2) over operation histories of the real DefaultReader /
// BytesReader under every source configuration, plus deviation-bounded exploration
// (E1) of per-Read environment answers on short histories.  Oracle: plain cursor.

type c04Case struct {
	Cfg     ReaderCfg `json:"cfg"`
	Ops     []int     `json:"ops"`
	Hist    []string  `json:"history"`
	Choices []int     `json:"env_choices,omitempty"`
	DevMax  int       `json:"dev_max,omitempty"`
}

func c04Replay(c *mc.Ctx, prop, sub string, k c04Case) {
	if k.Cfg.BigAlloc {
		setAllocCap(1 << 30)
	}
	s := newReaderSys(k.Cfg)
	if k.Choices != nil || k.DevMax > 0 {
		s.ch, s.devMax = mc.NewReplayChooser(k.Choices), k.DevMax
	}
	s.Reset()
	for i, o := range k.Ops {
		if o < 0 || o >= len(s.ops) {
			panic("replay: operation index out of range (alphabet changed?)")
		}
		what, sig := s.Apply(o, true)
		if what != "" {
			c.Violate(sub, prop+"|"+sig, fmt.Sprintf("after %v: %s [%s; stream of %d bytes; %s]", s.histString(k.Ops[:i]), what, k.Cfg.Kind, k.Cfg.DLen, k.Cfg.Env), k)
			return
		}
	}
}

func readerBFS(c *mc.Ctx, prop string, cfg ReaderCfg, depth int, maxStates int64) {
	s := newReaderSys(cfg)
	label := fmt.Sprintf("bfs %s dlen=%d spare=%d %s warm=%d depth=%d", cfg.Kind, cfg.DLen, cfg.SpareCap, cfg.Env, cfg.Warm, depth)
	st := mc.BFS(s, depth, maxStates, c.Expired, func(h []int, op int, what, sig string) {
		ops := append(append([]int{}, h...), op)
		c.Violate("bfs", prop+"|"+sig, fmt.Sprintf("after %v: %s [%s; stream of %d bytes; %s]", s.histString(h), what, cfg.Kind, cfg.DLen, cfg.Env),
			c04Case{Cfg: cfg, Ops: ops, Hist: s.histString(ops)})
	})
	c.R.States += st.States
	c.R.Transitions += st.Transitions
	c.R.Traces += st.Transitions
	c.Eval(st.Transitions)
	c.R.Distinct += st.States
	c.Count(fmt.Sprintf("bfs-completed-depth-%d", st.Depth), 1)
	if st.Capped {
		c.Incomplete(fmt.Sprintf("%s: stopped by deadline/state cap after complete depth %d (%d states)", label, st.Depth, st.States))
	} else {
		c.Done(label)
	}
}

func readerDeviations(c *mc.Ctx, prop string, cfg ReaderCfg, depth, bound, devMax int) {
	s := newReaderSys(cfg)
	nops := s.NumOps()
	hist := make([]int, depth)
	var total int64
	var rec func(d int)
	capped := false
	rec = func(d int) {
		if capped {
			return
		}
		if d == depth {
			st := mc.Explore(bound, 0, c.Expired, func(ch *mc.Chooser) {
				s.ch, s.devMax = ch, devMax
				s.Reset()
				for i, o := range hist {
					what, sig := s.Apply(o, true)
					if what != "" {
						ops := append([]int{}, hist[:i+1]...)
						c.Violate("dev", prop+"|"+sig, fmt.Sprintf("after %v with env deviations %v: %s [stream of %d bytes; %s]", s.histString(hist[:i]), ch.Choices(), what, cfg.DLen, cfg.Env),
							c04Case{Cfg: cfg, Ops: ops, Hist: s.histString(ops), Choices: ch.Choices(), DevMax: devMax})
						return
					}
				}
			})
			total += st.Executions
			if st.Capped {
				capped = true
			}
			return
		}
		for o := 0; o < nops; o++ {
			hist[d] = o
			rec(d + 1)
		}
	}
	rec(0)
	c.Eval(total)
	c.R.Transitions += total * int64(depth)
	c.R.Traces += total * int64(depth)
	c.Count("deviation-executions", total)
	label := fmt.Sprintf("deviations<=%d on first %d reads, all histories of depth %d, dlen=%d %s", bound, devMax, depth, cfg.DLen, cfg.Env)
	if capped {
		c.Incomplete(label)
	} else {
		c.Done(label)
	}
}

var sizesQ = []int{0, 1, 3, 100, 101, 4095, 4096, 4097, 8193}
var sizesT = []int{0, 1, 2, 3, 99, 100, 101, 4095, 4096, 4097, 8192, 8193, 12289, 16385}

func envConfigs(thorough bool) []EnvCfg {
	var r []EnvCfg
	if thorough {
		for ci, ch := range []int{0, 1, 2, 3, 7, 100, 4095, 4096, 4097} {
			for _, wl := range []bool{false, true} {
				for z := 0; z <= 2; z++ {
					for e := range termErrs {
						if e >= 8 && (ci+z+e)%4 != 0 {
							continue // the two newest error kinds rotate through the product instead of multiplying it
						}
						r = append(r, EnvCfg{Chunk: ch, ErrWithLast: wl, ZeroReads: z, Err: e, AfterErr: (e + z) % 2})
					}
				}
			}
		}
		for _, ch := range []int{1, 100, 4096} {
			for e := range termErrs {
				r = append(r, EnvCfg{Chunk: ch, ErrWithLast: e%2 == 0, Len: true, Err: e, AfterErr: e % 2})
			}
		}
		for _, tz := range []int{1, 2, 63, 64, 98, 99, 100, 101, 127, 128, 129, 255, 256, 300} {
			for e := range termErrs {
				r = append(r, EnvCfg{Chunk: 0, TailZeros: tz, Err: e, AfterErr: e % 2}, EnvCfg{Chunk: 7, TailZeros: tz, Err: e})
			}
		}
		return r
	}
	i := 0
	for ti, tz := range []int{1, 98, 99, 100, 128, 300} {
		r = append(r, EnvCfg{Chunk: 100, TailZeros: tz, Err: ti % len(termErrs), AfterErr: ti % 2})
	}
	r = append(r, EnvCfg{Chunk: 7, ZeroReads: 30, Err: 3}, EnvCfg{Chunk: 4097, ZeroReads: 30, ErrWithLast: true, Err: 5, AfterErr: 1})
	r = append(r, EnvCfg{Chunk: 1, Len: true, Err: 6}, EnvCfg{Chunk: 100, ErrWithLast: true, Len: true, Err: 7, AfterErr: 1}, EnvCfg{Chunk: 4096, Len: true, Err: 1})
	for _, ch := range []int{0, 1, 7, 4097} {
		for _, wl := range []bool{false, true} {
			for z := 0; z <= 1; z++ {
				r = append(r, EnvCfg{Chunk: ch, ErrWithLast: wl, ZeroReads: z, Err: i % len(termErrs), AfterErr: 0})
				r = append(r, EnvCfg{Chunk: ch, ErrWithLast: wl, ZeroReads: z, Err: (i + 1) % len(termErrs), AfterErr: 1})
				i++
			}
		}
	}
	return r
}

type bytesShape struct{ l, spare int }

var bytesShapes = []bytesShape{{0, 0}, {0, 8}, {5, 0}, {5, 3}, {100, 28}, {4096, 0}, {4096, 4096}, {5000, 0}, {5000, 3192}, {8192, 0}}

func c04Run(c *mc.Ctx) {
	th := c.Thorough()
	sizes, depth := sizesQ, 4
	dlens := []int{5, 150, 4097, 8200}
	c.Sample("history", map[string]interface{}{"reader": "default", "stream": 8200, "env": "chunk=1 errWithLast=true", "ops": []string{"peek(4097)", "next(100)", "readbinary(8193)", "Release()"}})
	// 1. explicit-state search, io.Reader-backed
	if !th {
		for _, dl := range dlens {
			for _, env := range envConfigs(false) {
				if !c.Mine() {
					continue
				}
				readerBFS(c, "C04", ReaderCfg{Kind: "default", DLen: dl, Env: env, Sizes: sizes}, depth, 0)
			}
		}
	} else {
		// thorough (A): one level deeper with the quick alphabet on the quick configurations
		for _, dl := range dlens {
			for _, env := range envConfigs(false) {
				if !c.Mine() {
					continue
				}
				readerBFS(c, "C04", ReaderCfg{Kind: "default", DLen: dl, Env: env, Sizes: sizesQ}, 5, 0)
			}
		}
		// thorough (B): the larger size alphabet on the full product of source behaviours and stream lengths
		for _, dl := range []int{0, 1, 5, 100, 101, 150, 4096, 4097, 8200, 20000} {
			for _, env := range envConfigs(true) {
				if !c.Mine() {
					continue
				}
				readerBFS(c, "C04", ReaderCfg{Kind: "default", DLen: dl, Env: env, Sizes: sizesT}, 4, 0)
			}
		}
		sizes, depth = sizesT, 4
	}
	// 1b. histories that start after 9..11 (Next(1), Release) cycles on a 1-byte-per-Read source: the size-statistics ring wraps
	for _, warm := range []int{9, 10, 11, 21} {
		if !c.Mine() {
			continue
		}
		readerBFS(c, "C04", ReaderCfg{Kind: "default", DLen: 300, Env: EnvCfg{Chunk: 1}, Sizes: []int{1, 100, 4097}, Warm: warm, NoNeg: true}, 3, 0)
	}
	// 1b'. a long-lived reader whose earlier messages were small (the statistics say "4 KiB is typical"), then a message
	//      that makes the buffer grow, released with tails of every size class still unread
	for _, warm := range []int{3, 10} {
		for _, dl := range []int{20000, 40000} {
			if !c.Mine() {
				continue
			}
			readerBFS(c, "C04", ReaderCfg{Kind: "default", DLen: dl, Env: EnvCfg{}, Sizes: []int{1, 4097, 8193}, Warm: warm, NoNeg: true}, 4, 0)
			readerBFS(c, "C04", ReaderCfg{Kind: "default", DLen: dl, Env: EnvCfg{Chunk: 16384, ErrWithLast: true}, Sizes: []int{1, 4097, 8193}, Warm: warm, NoNeg: true}, 4, 0)
			// the warm-up messages arrive one byte at a time (each is drained at its Release), the rest arrives at once
			readerBFS(c, "C04", ReaderCfg{Kind: "default", DLen: dl, Env: EnvCfg{SmallFirst: warm}, Sizes: []int{1, 8193, 16385}, Warm: warm, NoNeg: true}, 4, 0)
		}
	}
	// 1b''. requests beyond 64 MiB on a stream that ends early, the error arriving together with data
	if c.Mine() {
		setAllocCap(1 << 30)
		for _, env := range []EnvCfg{{Chunk: 1 << 20, ErrWithLast: true, Err: 1}, {Chunk: 1<<20 + 3, Err: 2}} {
			for _, dl := range []int{64 << 20, 66<<20 + 77} { // exactly one growth step, and a little more
				readerBFS(c, "C04", ReaderCfg{Kind: "default", DLen: dl, Env: env, Sizes: []int{5, 65<<20 + 1, 68 << 20}, NoNeg: true, BigAlloc: true}, 2, 0)
			}
		}
		setAllocCap(64 << 20)
	}
	// 1c. requests beyond 1 MiB / 2 MiB (above every pooling and retention threshold) on a 3 MiB stream
	for _, env := range []EnvCfg{{}, {Chunk: 65536, ErrWithLast: true, Err: 1}, {Chunk: 1<<20 + 7, ZeroReads: 1, Err: 2, AfterErr: 1}} {
		if !c.Mine() {
			continue
		}
		readerBFS(c, "C04", ReaderCfg{Kind: "default", DLen: 3<<20 + 11, Env: env, Sizes: []int{5, 1<<20 + 1, 1 << 21}, NoNeg: true}, 3, 0)
	}
	if c.Mine() {
		readerBFS(c, "C04", ReaderCfg{Kind: "bytes", DLen: 1 << 17, SpareCap: 0, Sizes: []int{100, 1<<17 - 4096, 1<<17 - 100, 4096}, NoNeg: true}, 3, 0)
	}
	if c.Mine() {
		readerBFS(c, "C04", ReaderCfg{Kind: "bytes", DLen: 2<<20 + 5, SpareCap: 1<<20 - 5, Sizes: []int{5, 1<<20 + 1, 1 << 21}, NoNeg: true}, 3, 0)
	}
	// 2. explicit-state search, bytes-backed
	for _, sh := range bytesShapes {
		if !c.Mine() {
			continue
		}
		readerBFS(c, "C04", ReaderCfg{Kind: "bytes", DLen: sh.l, SpareCap: sh.spare, Sizes: sizes}, depth+1, 0)
	}
	// 3. per-Read deviations (short read, empty read, half, all-with-error) on short histories
	bound, ddepth := 1, 2
	dsizes := []int{1, 100, 101, 4097}
	if th {
		bound, ddepth = 2, 3
	}
	for _, dl := range []int{150, 4200} {
		for _, wl := range []bool{false, true} {
			if !c.Mine() {
				continue
			}
			readerDeviations(c, "C04", ReaderCfg{Kind: "default", DLen: dl, Env: EnvCfg{ErrWithLast: wl, Err: 0}, Sizes: dsizes, NoNeg: true}, ddepth, bound, 24)
		}
	}
}

func init() {
	Register(&Check{
		ID: "C04", Level: "model_checking", Thorough: 45 * time.Minute,
		Rule: "explicit-state BFS over all histories of Next/Peek/Skip/ReadBinary(n)/Release with n from the boundary alphabet, on the real reader, for every (stream length x chunk policy x end style x zero-read policy x terminal error) and every bytes-reader shape; states keyed by private fields (len,cap,ri,parked buffers,error,stats ring) + source state + cursor; every transition compared with a plain cursor; plus all per-Read deviations (<= bound) on all short histories",
		Assumptions: []string{
			"a source that fails keeps failing (no data after its error); 100 consecutive empty reads are outside the environment (finite zero-read policies)",
			"success is required whenever the source holds the requested bytes; on exhaustion the error must match the source's error under errors.Is",
			"the shared buffer pool is replaced by the deterministic auditing shim (same size rules as mcache)",
		},
		Run: c04Run,
		Replay: func(c *mc.Ctx, sub string, raw json.RawMessage) {
			replayAs(raw, func(k c04Case) { c04Replay(c, "C04", sub, k) })
		},
	})
}
