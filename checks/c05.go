package checks

import (
	"encoding/json"
	"fmt"
	"time"

	"verif/mc"
)

// C05 — buffered writer flushes exactly what was written, once, in order.
// Explicit-state search over histories of Malloc (filled immediately / lazily), WriteBinary, Flush
// on the real DefaultWriter / BytesWriter; sink failing at the k-th write for every k.

type c05Case struct {
	Cfg  WriterCfg `json:"cfg"`
	Ops  []int     `json:"ops"`
	Hist []string  `json:"history"`
}

func c05Replay(c *mc.Ctx, prop, sub string, k c05Case) {
	s := newWriterSys(k.Cfg)
	s.Reset()
	for i, o := range k.Ops {
		if o < 0 || o >= len(s.ops) {
			panic("replay: operation index out of range (alphabet changed?)")
		}
		what, sig := s.Apply(o, true)
		if what != "" {
			c.Violate(sub, prop+"|"+sig, fmt.Sprintf("after %v: %s [%s]", s.histString(k.Ops[:i]), what, writerCfgString(k.Cfg)), k)
			return
		}
	}
}

func writerCfgString(cfg WriterCfg) string {
	if cfg.Kind == "bytes" {
		return fmt.Sprintf("bytes writer over initial slice len=%d cap=%d, late fill reverse=%v, cotenant=%d", cfg.InitLen, cfg.InitCap, cfg.Reverse, cfg.CoTenant)
	}
	return fmt.Sprintf("default writer, sink fails at write #%d (0=never), late fill reverse=%v, cotenant=%d", cfg.FailAt, cfg.Reverse, cfg.CoTenant)
}

func writerBFS(c *mc.Ctx, prop string, cfg WriterCfg, depth int) {
	s := newWriterSys(cfg)
	label := fmt.Sprintf("bfs %s depth=%d", writerCfgString(cfg), depth)
	st := mc.BFS(s, depth, 0, c.Expired, func(h []int, op int, what, sig string) {
		ops := append(append([]int{}, h...), op)
		c.Violate("bfs", prop+"|"+sig, fmt.Sprintf("after %v: %s [%s]", s.histString(h), what, writerCfgString(cfg)), c05Case{Cfg: cfg, Ops: ops, Hist: s.histString(ops)})
	})
	c.R.States += st.States
	c.R.Transitions += st.Transitions
	c.R.Traces += st.Transitions
	c.Eval(st.Transitions)
	c.R.Distinct += st.States
	c.Count(fmt.Sprintf("bfs-completed-depth-%d", st.Depth), 1)
	if st.Capped {
		c.Incomplete(fmt.Sprintf("%s: stopped after complete depth %d (%d states)", label, st.Depth, st.States))
	} else {
		c.Done(label)
	}
}

type initShape struct{ l, c int }

var initShapes = []initShape{{0, -1}, {0, 8}, {3, 8}, {8, 8}, {10, 10}, {100, 4096}, {4096, 4096}, {5000, 5000}, {4000, 8192}}

var wsizesQ = []int{0, 1, 3, 4095, 4096, 4097, 8193}
var wsizesT = []int{0, 1, 2, 3, 100, 4095, 4096, 4097, 8192, 8193, 12289, 16385, 40000}

func c05Run(c *mc.Ctx) {
	sizes, depth, maxFail := wsizesQ, 4, 3
	if c.Thorough() {
		// thorough (A): one level deeper with the quick alphabet; (B) below: the larger alphabet at depth 4
		sizes, depth, maxFail = wsizesQ, 5, 5
	}
	c.Sample("history", map[string]interface{}{"writer": "default", "sink_fails_at": 2, "ops": []string{"malloclate(4097)", "writebinary(8193)", "Flush()", "malloc(1)", "Flush()"}})
	for _, rev := range []bool{false, true} {
		for k := 0; k <= maxFail; k++ {
			if !c.Mine() {
				continue
			}
			writerBFS(c, "C05", WriterCfg{Kind: "default", FailAt: k, Sizes: sizes, Reverse: rev}, depth)
		}
		for k := 1; k <= 2; k++ {
			for mode := 1; mode <= 3; mode++ {
				if c.Mine() {
					writerBFS(c, "C05", WriterCfg{Kind: "default", FailAt: k, SinkMode: mode, Sizes: []int{1, 3, 4097}, Reverse: rev}, depth)
				}
			}
		}
		for _, sh := range initShapes {
			if !c.Mine() {
				continue
			}
			writerBFS(c, "C05", WriterCfg{Kind: "bytes", InitLen: sh.l, InitCap: sh.c, Sizes: sizes, Reverse: rev}, depth)
		}
		if c.Thorough() {
			for k := 0; k <= maxFail; k++ {
				if c.Mine() {
					writerBFS(c, "C05", WriterCfg{Kind: "default", FailAt: k, Sizes: wsizesT, Reverse: rev}, 4)
				}
			}
			for _, sh := range initShapes {
				if c.Mine() {
					writerBFS(c, "C05", WriterCfg{Kind: "bytes", InitLen: sh.l, InitCap: sh.c, Sizes: wsizesT, Reverse: rev}, 4)
				}
			}
		}
		// histories that start after 8..12 and 19..21 flush cycles: the size-statistics ring (10 buckets) wraps
		for _, warm := range []int{8, 9, 10, 11, 12, 19, 20, 21} {
			if !c.Mine() {
				continue
			}
			writerBFS(c, "C05", WriterCfg{Kind: "default", Sizes: []int{1, 4097}, Reverse: rev, Warm: warm}, 3)
			writerBFS(c, "C05", WriterCfg{Kind: "bytes", InitLen: 3, InitCap: 8, Sizes: []int{1, 4097}, Reverse: rev, Warm: warm}, 3)
		}
		// a sink that also offers WriteString / ReadFrom
		for _, k := range []int{0, 2} {
			if c.Mine() {
				writerBFS(c, "C05", WriterCfg{Kind: "default", FailAt: k, SinkMode: k, RichSink: true, Sizes: []int{1, 4095, 4097}, Reverse: rev}, depth)
			}
		}
		if c.Mine() {
			writerBFS(c, "C05", WriterCfg{Kind: "default", RichSink: true, SinkFlushFails: true, Sizes: []int{1, 4095, 4097}, Reverse: rev}, depth)
		}
		// regions and payloads beyond 1 MiB / 2 MiB
		if c.Mine() {
			writerBFS(c, "C05", WriterCfg{Kind: "default", Sizes: []int{5, 1<<20 + 1, 1 << 21}, Reverse: rev}, 3)
		}
		if c.Mine() {
			writerBFS(c, "C05", WriterCfg{Kind: "default", FailAt: 2, SinkMode: 2, Sizes: []int{5, 1<<20 + 1, 1 << 21}, Reverse: rev}, 3)
		}
		if c.Mine() {
			writerBFS(c, "C05", WriterCfg{Kind: "bytes", InitLen: 7, InitCap: 4096, Sizes: []int{5, 1<<20 + 1, 1 << 21}, Reverse: rev}, 3)
		}
	}
}

func init() {
	Register(&Check{
		ID: "C05", Level: "model_checking", Thorough: 45 * time.Minute,
		Rule: "explicit-state BFS over all histories of Malloc(n) filled immediately, Malloc(n) filled just before the next Flush (forward or reverse order), WriteBinary(n bytes), Malloc(-1), Flush with n from the boundary alphabet, on the real writer; sink failing at write k for every k; bytes writers over nil/empty/partly filled/full initial slices; states keyed by private fields (len,cap,parked buffers,error,stats ring) + sink calls + unflushed region list; every transition compared with the region-list model",
		Assumptions: []string{
			"later flushes of one bytes writer: the statement is silent on whether the target accumulates, both readings are accepted",
			"the shared buffer pool is replaced by the deterministic auditing shim (same size rules as mcache)",
		},
		Run: c05Run,
		Replay: func(c *mc.Ctx, sub string, raw json.RawMessage) {
			replayAs(raw, func(k c05Case) { c05Replay(c, "C05", sub, k) })
		},
	})
}
