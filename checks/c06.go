package checks

import (
	"bytes"
	"context"
	"encoding/binary"
	"encoding/json"
	"fmt"
	"sort"

	"github.com/bytedance/gopkg/lang/mcache"
	"github.com/cloudwego/gopkg/bufiox"
	"github.com/cloudwego/gopkg/protocol/ttheader"

	"verif/gen"
	"verif/mc"
	"verif/ref"
)

// C06 — TTHeader encode/decode round-trips and conforms to the frame layout.

type c06Case struct {
	Flags   uint16            `json:"flags"`
	Seq     int32             `json:"seq"`
	Proto   uint8             `json:"protocol"`
	Int     map[uint16]string `json:"int_info,omitempty"`
	Str     map[string]string `json:"str_info,omitempty"`
	LongKey string            `json:"long_value_key,omitempty"` // the value under this key is regenerated with LongLen bytes
	LongInt int               `json:"long_int_key,omitempty"`   // -1: none
	LongLen int               `json:"long_len,omitempty"`
	Tiny    int               `json:"tiny_entries,omitempty"` // StrInfo = the empty key plus this many - 1 one-byte keys, every value empty (the smallest entries there are)
	Many    int               `json:"many_entries,omitempty"` // this many generated entries in BOTH maps (more than any fixed budget an encoder or decoder might have)
	Payload int               `json:"payload_len"`
	Writer  string            `json:"writer"` // tobytes | bytes | default
	Env     EnvCfg            `json:"env"`
	Stream  bool              `json:"stream_reader"`
	EnvChoices
}

func c06LongVal(n int) string {
	b := make([]byte, n)
	for i := range b {
		b[i] = byte(0x30 + i%75)
	}
	return string(b)
}

func (k *c06Case) params() ttheader.EncodeParam {
	p := ttheader.EncodeParam{Flags: ttheader.HeaderFlags(k.Flags), SeqID: k.Seq, ProtocolID: ttheader.ProtocolID(k.Proto)}
	if k.Int != nil {
		p.IntInfo = map[uint16]string{}
		for a, b := range k.Int {
			p.IntInfo[a] = b
		}
	}
	if k.Str != nil {
		p.StrInfo = map[string]string{}
		for a, b := range k.Str {
			p.StrInfo[a] = b
		}
	}
	for i := 0; i < k.Tiny; i++ {
		if p.StrInfo == nil {
			p.StrInfo = map[string]string{}
		}
		if i == 0 {
			p.StrInfo[""] = ""
		} else {
			p.StrInfo[string(rune('a'+i-1))] = ""
		}
	}
	for i := 0; i < k.Many; i++ {
		if p.IntInfo == nil {
			p.IntInfo = map[uint16]string{}
		}
		if p.StrInfo == nil {
			p.StrInfo = map[string]string{}
		}
		p.IntInfo[uint16(100+i*3)] = fmt.Sprintf("int-value-%d", i)
		p.StrInfo[fmt.Sprintf("key-%04d", i)] = fmt.Sprintf("v%d", i%10)
	}
	if k.LongLen > 0 {
		if k.LongInt >= 0 {
			if p.IntInfo == nil {
				p.IntInfo = map[uint16]string{}
			}
			p.IntInfo[uint16(k.LongInt)] = c06LongVal(k.LongLen)
		} else {
			if p.StrInfo == nil {
				p.StrInfo = map[string]string{}
			}
			p.StrInfo[k.LongKey] = c06LongVal(k.LongLen)
		}
	}
	return p
}

func c06One(c *mc.Ctx, k c06Case) (encoded bool) {
	c.Eval(1)
	p := k.params()
	bad := func(class, format string, a ...interface{}) {
		k.EnvChoices = currentEnvChoices()
		c.Violate("roundtrip", "C06|"+class, fmt.Sprintf("flags=%#x seq=%d proto=%d int=%d entries str=%d entries long=%d payload=%d writer=%s stream=%v [%s]: ", k.Flags, k.Seq, k.Proto, len(p.IntInfo), len(p.StrInfo), k.LongLen, k.Payload, k.Writer, k.Stream, k.Env)+fmt.Sprintf(format, a...), k)
	}
	payload := stream(k.Payload)
	mcache.VerifReset()
	snapStr, snapInt := map[string]string{}, map[uint16]string{}
	for a, b := range p.StrInfo {
		snapStr[a] = b
	}
	for a, b := range p.IntInfo {
		snapInt[a] = b
	}
	strWasNil := p.StrInfo == nil
	defer func() {
		if !mapsEqStr(p.StrInfo, snapStr) || !mapsEqInt(p.IntInfo, snapInt) || (p.StrInfo == nil) != strWasNil {
			bad("params-modified", "Encode modified the caller's parameter maps (StrInfo %d -> %d entries, IntInfo %d -> %d)", len(snapStr), len(p.StrInfo), len(snapInt), len(p.IntInfo))
		}
	}()
	pi := mc.Try(func() {
		ctx := context.Background()
		var frame []byte // header bytes as they reached the sink / target
		var all []byte   // header + payload
		initial := []byte{0xA1, 0xA2, 0xA3}
		switch k.Writer {
		case "tobytes":
			b, err := ttheader.EncodeToBytes(ctx, p)
			if err != nil {
				return
			}
			frame = b
			binary.BigEndian.PutUint32(frame, uint32(len(frame)+len(payload)-4))
			all = append(append([]byte{}, frame...), payload...)
		case "bytes", "default", "zc":
			var w bufiox.Writer
			var target []byte
			var sink *EnvWriter
			pre := 0
			if k.Writer == "zc" {
				// a conforming zero-copy writer: WriteBinary keeps a reference until Flush
				sink = &EnvWriter{}
				// the caller's parameter maps are read-only for Encode at every moment, not only once it has returned (another
				// goroutine may be encoding with the same maps): they are looked at whenever Encode calls into the writer
				w = bxVal{&zcWriter{sink: sink, OnOp: func() {
					if !mapsEqStr(p.StrInfo, snapStr) || !mapsEqInt(p.IntInfo, snapInt) {
						bad("params-modified", "in the middle of Encode (at a call into the writer) the caller's parameter maps differ from what was passed in (StrInfo %d -> %d entries, IntInfo %d -> %d)", len(snapStr), len(p.StrInfo), len(snapInt), len(p.IntInfo))
					}
				}}, 1}
			} else if k.Writer == "bytes" {
				// initial slice shapes: spare room, no spare room, room for exactly the 14-byte meta block
				switch (int(k.Flags) + k.Payload + len(p.StrInfo)) % 3 {
				case 0:
					target = append(make([]byte, 0, 64), initial...)
				case 1:
					target = append(make([]byte, 0, len(initial)), initial...)
				default:
					target = append(make([]byte, 0, len(initial)+14), initial...)
				}
				pre = len(initial)
				w = bufiox.NewBytesWriter(&target)
			} else {
				sink = &EnvWriter{}
				w = bufiox.NewDefaultWriter(sink)
			}
			totalField, err := ttheader.Encode(ctx, p, w)
			if err != nil {
				return
			}
			hl := w.WrittenLen() - pre
			// zero-copy contract: the total length is patched through the returned slice before Flush
			if len(totalField) != 4 {
				bad("total-len-field", "Encode returned a %d-byte total-length field", len(totalField))
				return
			}
			binary.BigEndian.PutUint32(totalField, uint32(hl+len(payload)-4))
			if _, err := w.WriteBinary(payload); err != nil {
				bad("write-error", "WriteBinary(payload): %v", err)
				return
			}
			if err := w.Flush(); err != nil {
				bad("write-error", "Flush: %v", err)
				return
			}
			var out []byte
			defer func(w bufiox.Writer, isBytes bool) {
				// a second frame through the SAME writer (after the Flush) must be laid out just as well
				if !encoded {
					return
				}
				var sink2 *EnvWriter
				if !isBytes {
					sink2 = sink
				}
				before := 0
				if sink2 != nil {
					before = len(sink2.Got)
				}
				if _, err := ttheader.Encode(ctx, p, w); err != nil {
					bad("second-frame", "a second Encode on the same writer failed: %v", err)
					return
				}
				if err := w.Flush(); err != nil {
					bad("second-frame", "Flush of the second frame failed: %v", err)
					return
				}
				var f2 []byte
				if isBytes {
					f2 = target
					if len(f2) > hl { // a target that accumulates: the second frame is its tail
						f2 = f2[len(f2)-hl:]
					}
				} else {
					f2 = sink2.Got[before:]
				}
				if why := ref.TTHLayout(f2, k.Flags, k.Seq, k.Proto, p.IntInfo, p.StrInfo, ttheader.GDPRToken); why != "" {
					bad("second-frame:"+why, "the second frame written through the same writer violates the layout: %s", why)
				}
			}(w, k.Writer == "bytes")
			if k.Writer == "bytes" {
				if !bytes.Equal(target[:pre], initial) {
					bad("initial-contents", "the initial contents of the bytes writer's slice were not preserved")
					return
				}
				out = target[pre:]
			} else {
				out = sink.Got
			}
			if len(out) != hl+len(payload) {
				bad("written-len", "WrittenLen after Encode says the header has %d bytes, but %d bytes reached the sink for header + %d payload bytes", hl, len(out), len(payload))
				return
			}
			frame, all = out[:hl], out
		}
		encoded = true
		if why := ref.TTHLayout(frame, k.Flags, k.Seq, k.Proto, p.IntInfo, p.StrInfo, ttheader.GDPRToken); why != "" {
			bad("layout:"+why, "the encoded frame (%d bytes) violates the layout: %s; frame %s", len(frame), why, mc.Hex(frame))
			return
		}
		if got := binary.BigEndian.Uint32(frame); got != uint32(len(frame)+len(payload)-4) {
			bad("total-len-field", "the total length patched through the returned slice is not visible in the flushed bytes (%d)", got)
			return
		}
		if !ttheader.IsTTHeader(frame) {
			bad("is-ttheader", "IsTTHeader is false on an encoded frame")
			return
		}
		if ttheader.IsStreaming(frame) != (k.Flags&2 != 0) {
			bad("is-streaming", "IsStreaming = %v for flags %#x", ttheader.IsStreaming(frame), k.Flags)
			return
		}
		if !ref.TTHSupportedProtocol(k.Proto) {
			return // layout conformance only; decode is specified for supported protocol ids
		}
		// decode
		// the reader carries TWO copies of the frame+payload back to back (a connection with pipelined messages)
		twice := append(append(make([]byte, 0, 2*len(all)), all...), all...)
		var r bufiox.Reader
		if k.Stream {
			r = bufiox.NewDefaultReader(NewEnvReader(twice, k.Env).Src())
		} else {
			r = bufiox.NewBytesReader(twice)
		}
		d, err := ttheader.Decode(ctx, r)
		if err != nil {
			bad("decode-error", "an encoded frame (header %d bytes, header info %d) does not decode: %v", len(frame), len(frame)-14, err)
			return
		}
		if r.ReadLen() != len(frame) {
			bad("read-len", "the decoder consumed %d bytes, the encoder wrote %d", r.ReadLen(), len(frame))
			return
		}
		if d.HeaderLen != len(frame) {
			bad("header-len", "decoded HeaderLen %d, the encoder wrote %d bytes", d.HeaderLen, len(frame))
			return
		}
		if d.PayloadLen != len(payload) {
			bad("payload-len", "decoded PayloadLen %d, the payload has %d bytes (total length field + 4 - header length)", d.PayloadLen, len(payload))
			return
		}
		// the same header announcing payloads of every magnitude (the field has 32 bits; the payload itself is not needed to
		// decode the header): the payload is delimited exactly
		for _, total := range []uint32{uint32(len(frame)) - 4, 0x00ffffff, 0x3fffffff, 0x40000000, 0x7fffffff, 0x80000000, 0xfffffff0} {
			hdr := append([]byte{}, frame...)
			binary.BigEndian.PutUint32(hdr, total)
			d2, err := ttheader.DecodeFromBytes(ctx, hdr)
			if want := int(int64(total) + 4 - int64(len(frame))); err != nil || d2.HeaderLen != len(frame) || d2.PayloadLen != want {
				bad("payload-len", "with the total-length field set to %#x the header decodes to (HeaderLen %d, PayloadLen %d, %v), want PayloadLen = total + 4 - header length = %d", total, d2.HeaderLen, d2.PayloadLen, err, want)
				return
			}
		}
		if uint16(d.Flags) != k.Flags || d.SeqID != k.Seq || uint8(d.ProtocolID) != k.Proto {
			bad("fields", "decoded flags/seq/protocol %#x/%d/%d", d.Flags, d.SeqID, d.ProtocolID)
			return
		}
		if !mapsEqStr(d.StrInfo, p.StrInfo) || !mapsEqInt(d.IntInfo, p.IntInfo) {
			bad("maps", "decoded maps differ from the encoded parameters: str %d/%d entries, int %d/%d entries", len(d.StrInfo), len(p.StrInfo), len(d.IntInfo), len(p.IntInfo))
			return
		}
		if len(payload) > 0 {
			n := len(payload)
			if n > 64 {
				n = 64
			}
			if b, err := r.Next(n); err != nil || !bytes.Equal(b, payload[:n]) {
				bad("payload-bytes", "the bytes following the header are not the payload (%v)", err)
				return
			}
		}
		// second message on the same reader: skip the rest of the payload, release, decode again
		if rest := len(payload) - min(len(payload), 64); rest > 0 {
			if err := r.Skip(rest); err != nil {
				bad("payload-bytes", "skipping the rest of the payload failed: %v", err)
				return
			}
		}
		rl0 := 0
		if (int(k.Flags)+k.Payload)%2 == 0 {
			r.Release(nil)
		} else {
			rl0 = r.ReadLen() // pipelined: the next frame is decoded without a Release in between
		}
		dB, errB := ttheader.Decode(ctx, r)
		if errB != nil || dB.HeaderLen != len(frame) || dB.PayloadLen != len(payload) || r.ReadLen()-rl0 != len(frame) || !mapsEqStr(dB.StrInfo, p.StrInfo) || !mapsEqInt(dB.IntInfo, p.IntInfo) || uint16(dB.Flags) != k.Flags || dB.SeqID != k.Seq {
			bad("second-message-on-reader", "decoding the second, identical frame from the same reader (released in between: %v): err=%v HeaderLen=%d PayloadLen=%d consumed=%d (want %d/%d/%d)", rl0 == 0, errB, dB.HeaderLen, dB.PayloadLen, r.ReadLen()-rl0, len(frame), len(payload), len(frame))
			return
		}
		var d2 ttheader.DecodeParam
		var err2 error
		if !k.Stream {
			d2, err2 = ttheader.DecodeFromBytes(ctx, all)
		}
		// the decoded parameters must survive the reader's Release, recycling of its buffers and reuse of the input
		r.Release(nil)
		mcache.VerifCoTenant(true)
		for i := range all {
			all[i] = 0xEE
		}
		for i := range twice {
			twice[i] = 0xEE
		}
		if !mapsEqStr(d.StrInfo, p.StrInfo) || !mapsEqInt(d.IntInfo, p.IntInfo) {
			bad("maps-alias-buffer", "the decoded maps changed after the reader was released / the input buffer was reused: they alias the read buffer")
			return
		}
		if !k.Stream {
			if err2 != nil || d2.HeaderLen != d.HeaderLen || d2.PayloadLen != d.PayloadLen || !mapsEqStr(d2.StrInfo, p.StrInfo) || !mapsEqInt(d2.IntInfo, p.IntInfo) {
				bad("frombytes", "DecodeFromBytes disagrees with Decode (or its maps alias the input): %v", err2)
			}
		}
	})
	if pi != nil {
		if pi.IsAllocCap() {
			bad("alloc", "allocation above the cap")
		} else {
			bad("panic:"+pi.Frame, "panic: %s at %s", pi.Msg, pi.Frame)
		}
	}
	return
}

type c06Fail struct {
	Case   c06Case `json:"case"`
	FailAt int     `json:"fail_at"`
}

func c06Connection(c *mc.Ctx) {
	ctx := context.Background()
	sink := &EnvWriter{}
	w := bufiox.NewDefaultWriter(sink)
	var lens []int
	pi := mc.Try(func() {
		for i := 0; i < 12; i++ {
			p := ttheader.EncodeParam{SeqID: int32(i), StrInfo: map[string]string{"i": fmt.Sprint(i)}, IntInfo: map[uint16]string{uint16(i): stamp4(i)}}
			before := len(sink.Got)
			if _, err := ttheader.Encode(ctx, p, w); err != nil {
				panic(fmt.Sprintf("frame %d: Encode: %v", i, err))
			}
			if err := w.Flush(); err != nil {
				panic(fmt.Sprintf("frame %d: Flush: %v", i, err))
			}
			lens = append(lens, len(sink.Got)-before)
		}
		r := bufiox.NewDefaultReader(NewEnvReader(append([]byte{}, sink.Got...), EnvCfg{Chunk: 1}))
		for i := 0; i < 12; i++ {
			d, err := ttheader.Decode(ctx, r)
			if err != nil || d.SeqID != int32(i) || d.StrInfo["i"] != fmt.Sprint(i) || d.IntInfo[uint16(i)] != stamp4(i) || d.HeaderLen != lens[i] || r.ReadLen() != lens[i] {
				panic(fmt.Sprintf("frame %d of a 12-frame connection decoded wrongly: err=%v seq=%d HeaderLen=%d want %d", i, err, d.SeqID, d.HeaderLen, lens[i]))
			}
			r.Release(nil)
		}
	})
	c.Eval(24)
	if pi != nil {
		c.Violate("connection", "C06|connection", "twelve frames through one writer and one reader: "+pi.Msg, c06Case{Writer: "connection"})
	}
}

func stamp4(i int) string { return fmt.Sprintf("val-%04d", i*7) }

func subsetsUpTo[K comparable](keys []K, vals []string, max int) []map[K]string {
	out := []map[K]string{nil, {}}
	for i := range keys {
		for _, v := range vals {
			out = append(out, map[K]string{keys[i]: v})
		}
	}
	if max >= 2 {
		for i := range keys {
			for j := i + 1; j < len(keys); j++ {
				for vi, v := range vals {
					out = append(out, map[K]string{keys[i]: v, keys[j]: vals[(vi+1)%len(vals)]})
				}
			}
		}
	}
	if max >= 3 {
		for i := range keys {
			for j := i + 1; j < len(keys); j++ {
				for l := j + 1; l < len(keys); l++ {
					for vi, v := range vals {
						out = append(out, map[K]string{keys[i]: v, keys[j]: vals[(vi+1)%len(vals)], keys[l]: vals[(vi+2)%len(vals)]})
					}
				}
			}
		}
	}
	return out
}

func c06Run(c *mc.Ctx) {
	th := c.Thorough()
	setAllocCap(64 << 20)
	writers := []string{"tobytes", "bytes", "default", "zc"}
	var nenc, nfail int64
	run := func(k c06Case) {
		if c06One(c, k) {
			nenc++
		} else {
			nfail++
		}
	}
	// (1) all 65536 flag words, all 256 protocol ids, sequence ids
	lo, hi := c.Span(65536)
	small := map[string]string{"k": "v"}
	for f := lo; f < hi; f++ {
		run(c06Case{Flags: uint16(f), Seq: int32(f * 65537), Str: small, Int: map[uint16]string{27: "3"}, LongInt: -1, Writer: writers[f%4], Payload: int(f % 7)})
	}
	c.DistinctN(hi - lo)
	for p := 0; p < 256; p++ {
		for _, w := range writers {
			if c.Mine() {
				run(c06Case{Flags: 2, Seq: -1, Proto: uint8(p), Str: small, LongInt: -1, Writer: w, Payload: 5})
			}
		}
	}
	seqs := []int32{0, -1, -2147483648, 2147483647}
	for i := 0; i < 32; i++ {
		seqs = append(seqs, int32(uint32(1)<<i))
	}
	for _, s := range seqs {
		if c.Mine() {
			run(c06Case{Seq: s, LongInt: -1, Writer: "default", Payload: 1, Stream: true, Env: EnvCfg{Chunk: 1}})
		}
	}
	c.Done("all 65536 flag words; all 256 protocol ids x 3 writers; sequence ids 0/-1/min/max/every single bit")
	// (1b) many entries in both maps
	for _, n := range []int{3, 7, 8, 9, 15, 16, 17, 31, 32, 33, 64, 65, 128, 255, 256, 257, 1000, 2000} {
		if !c.Mine() {
			continue
		}
		for _, w := range []string{"tobytes", "bytes", "default", "zc"} {
			c.Distinct("many", n, w)
			c06One(c, c06Case{Flags: 1, Seq: int32(n), Proto: 0, LongInt: -1, Many: n, Payload: 5, Writer: w})
			c06One(c, c06Case{Flags: 1, Seq: int32(n), Proto: 0, LongInt: -1, Many: n, Payload: 5, Writer: w, Stream: true, Env: EnvCfg{Chunk: 1000, ErrWithLast: true}})
		}
	}
	c.Done("maps of 3..2000 entries in both sections on every writer, bytes- and stream-backed decode")
	// (1c) the smallest entries there are: empty key, one-byte keys, empty values; 1..13 of them (every padding residue,
	//      with and without the other sections)
	for n := 1; n <= 13; n++ {
		if !c.Mine() {
			continue
		}
		for _, w := range []string{"tobytes", "default", "zc"} {
			c.Distinct("tiny", n, w)
			c06One(c, c06Case{Flags: 0, Seq: int32(n), Proto: 0, LongInt: -1, Tiny: n, Payload: 3, Writer: w})
			c06One(c, c06Case{Flags: 0, Seq: int32(n), Proto: 0, LongInt: -1, Tiny: n, Payload: 3, Writer: w, Stream: true, Env: EnvCfg{Chunk: 3}})
			c06One(c, c06Case{Flags: 0, Seq: int32(n), Proto: 0, LongInt: -1, Tiny: n, Int: map[uint16]string{7: ""}, Payload: 3, Writer: w})
			c06One(c, c06Case{Flags: 0, Seq: int32(n), Proto: 0, LongInt: -1, Tiny: n, Str: map[string]string{ttheader.GDPRToken: "t"}, Payload: 3, Writer: w})
		}
	}
	c.Done("string sections made of the smallest possible entries (empty key, one-byte keys, empty values), 1..13 entries")
	// (2) info maps: all maps with <= 2 (thorough 3) entries over the key/value alphabets; every padding residue occurs
	maxE := 2
	if th {
		maxE = 3
	}
	vals := []string{"", "v", "ab", "abc", string(nonUTF8S), c06LongVal(255), c06LongVal(256)}
	strMaps := subsetsUpTo([]string{"", "a", "ab", ttheader.GDPRToken, c06LongVal(300)}, vals, maxE)
	intMaps := subsetsUpTo([]uint16{0, 1, ttheader.FrameType, 0xffff}, vals, maxE)
	// different strings of equal length that collide under widely used 32-bit hashes, as keys and values of one header
	for pi, pr := range gen.CollisionPairs() {
		strMaps = append(strMaps, map[string]string{pr[0]: pr[1], pr[1]: pr[0]})
		if pi < 2 {
			intMaps = append(intMaps, map[uint16]string{1: pr[0], 2: pr[1], 3: pr[0]})
		}
	}
	envs := []EnvCfg{{}, {Chunk: 1}, {Chunk: 7, ErrWithLast: true, ZeroReads: 1}, {Chunk: 4096}}
	if th {
		envs = c02Envs(true)
	}
	resid := map[int]int64{}
	for si, sm := range strMaps {
		for ii, im := range intMaps {
			if !c.Mine() {
				continue
			}
			if c.Expired() {
				c.Incomplete("info maps: deadline")
				return
			}
			// unpadded size residue (for the evidence: all four must occur)
			sz := 2
			if tok, ok := sm[ttheader.GDPRToken]; ok {
				sz += 3 + len(tok)
			}
			ns := 0
			for kk, vv := range sm {
				if kk != ttheader.GDPRToken {
					ns++
					sz += 4 + len(kk) + len(vv)
				}
			}
			if ns > 0 {
				sz += 3
			}
			if len(im) > 0 {
				sz += 3
			}
			for _, vv := range im {
				sz += 4 + len(vv)
			}
			resid[sz%4]++
			c.Distinct("maps", si, ii)
			k := c06Case{Flags: 0x0102, Seq: 7, Proto: []uint8{0, 3, 4, 0x10, 0x11}[(si+ii)%5], Str: sm, Int: im, LongInt: -1}
			for wi, w := range writers {
				k.Writer, k.Payload, k.Stream = w, []int{0, 1, 5, 4096, 70000}[(si+ii+wi)%5], false
				if w == "zc" {
					k.Payload = 5
				}
				if k.Payload == 70000 && (si+ii)%9 != 0 {
					k.Payload = 5
				}
				run(k)
			}
			k.Writer, k.Payload, k.Stream = "default", 5, true
			for _, env := range envs {
				k.Env = env
				run(k)
			}
		}
	}
	for r := 0; r < 4; r++ {
		c.Count(fmt.Sprintf("padding-residue-%d", r), resid[r])
	}
	// per-Read deviations on the stream-backed decode of small frames
	bd := 1
	if th {
		bd = 2
	}
	var devN int64
	for si, sm := range strMaps {
		if si%3 != 0 || !c.Mine() {
			continue
		}
		k := c06Case{Flags: 2, Seq: 5, Str: sm, Int: intMaps[si%len(intMaps)], LongInt: -1, Writer: "default", Payload: 3, Stream: true, Env: EnvCfg{Chunk: 5, AfterErr: 1, ErrWithLast: si%2 == 0}}
		if len(sm) > 0 {
			big := false
			for kk, vv := range sm {
				big = big || len(kk)+len(vv) > 40
			}
			if big {
				continue
			}
		}
		n, _ := exploreEnv(c, bd, func() { c06One(c, k) })
		devN += n
	}
	c.Count("deviation-executions", devN)
	c.Sample("params", c06Case{Flags: 0x0102, Seq: 7, Proto: 4, Str: map[string]string{ttheader.GDPRToken: "abc", "": "v"}, Int: map[uint16]string{0xffff: ""}, Writer: "bytes", Payload: 4096})
	c.Done(fmt.Sprintf("all string-keyed maps (%d) x all int-keyed maps (%d) with <= %d entries over the key/value alphabets (incl. empty key, ACL-token key, 300-byte key, 255/256-byte values) x 3 writers x payloads, stream-backed decode under %d fragmentation policies", len(strMaps), len(intMaps), maxE, len(envs)))
	// (3) limit sweep: the unpadded header-info size takes every value in 65500..65545
	type shape struct {
		name    string
		k       c06Case
		fixed   int // unpadded size without the swept value's bytes
		longKey string
		longInt int
	}
	shapes := []shape{
		{"string KV only", c06Case{}, 2 + 3 + 2 + 1 + 2, "x", -1},
		{"int KV only", c06Case{}, 2 + 3 + 2 + 2, "", 5},
		{"ACL token only", c06Case{}, 2 + 1 + 2, ttheader.GDPRToken, -1},
		{"all three sections", c06Case{Str: map[string]string{ttheader.GDPRToken: "tok"}, Int: map[uint16]string{1: "i"}}, 2 + (1 + 2 + 3) + (3 + 2 + 1 + 2) + (3 + 2 + 2 + 1), "y", -1},
	}
	for _, sh := range shapes {
		for target := 65500; target <= 65545; target++ {
			if !c.Mine() {
				continue
			}
			if c.Expired() {
				c.Incomplete("limit sweep: deadline")
				return
			}
			k := sh.k
			k.Flags, k.Seq, k.LongKey, k.LongInt, k.LongLen = 8, 99, sh.longKey, sh.longInt, target-sh.fixed
			c.Distinct("limit", sh.name, target)
			for wi, w := range writers {
				k.Writer, k.Payload, k.Stream = w, []int{0, 5, 70000, 1}[wi], false
				run(k)
			}
			k.Writer, k.Payload, k.Stream, k.Env = "default", 1, true, EnvCfg{Chunk: 4097, ErrWithLast: true}
			run(k)
			if th || target == 65536 || target == 65532 {
				k.Env = EnvCfg{Chunk: 1}
				run(k)
			}
		}
	}
	// (4) every well-known key of the transport (the decoder may treat them specially), alone and all together
	wk := []string{ttheader.HeaderIDLServiceName, ttheader.HeaderTransRemoteAddr, ttheader.HeaderTransToCluster, ttheader.HeaderTransToIDC, ttheader.HeaderTransPerfTConnStart, ttheader.HeaderTransPerfTConnEnd, ttheader.HeaderTransPerfTSendStart, ttheader.HeaderTransPerfTRecvStart, ttheader.HeaderTransPerfTRecvEnd, ttheader.HeaderConnectionReadyToReset, ttheader.HeaderProcessAtTime, ttheader.GDPRToken}
	allStr, allInt := map[string]string{}, map[uint16]string{}
	for i, key := range wk {
		allStr[key] = fmt.Sprintf("value-of-%d", i)
		for _, w := range writers {
			if c.Mine() {
				run(c06Case{Flags: 1, Seq: int32(i), Str: map[string]string{key: "v" + key}, LongInt: -1, Writer: w, Payload: 2})
			}
		}
	}
	for key := uint16(0); key <= ttheader.FrameType+1; key++ {
		allInt[key] = fmt.Sprintf("i%d", key)
		if c.Mine() {
			run(c06Case{Seq: int32(key), Int: map[uint16]string{key: fmt.Sprint(key)}, LongInt: -1, Writer: writers[int(key)%4], Payload: 1})
		}
	}
	for _, w := range writers {
		if c.Mine() {
			run(c06Case{Flags: 2, Seq: 77, Str: allStr, Int: allInt, LongInt: -1, Writer: w, Payload: 9})
			run(c06Case{Flags: 2, Seq: 78, Str: allStr, Int: allInt, LongInt: -1, Writer: w, Payload: 9, Stream: true, Env: EnvCfg{Chunk: 7, AfterErr: 1}})
		}
	}
	c.Done("every well-known string key and int key 0..FrameType+1, alone and all together")
	// (5) a writer that fails at its k-th operation, for every k: Encode returns an error (or the frame is fine), never panics, never modifies the parameters
	if c.Mine() {
		for _, k := range []c06Case{{Flags: 2, Seq: 1, Str: map[string]string{ttheader.GDPRToken: "tok", "k1": "v1", "k2": "v2"}, Int: map[uint16]string{1: "a", 2: "b"}}, {Seq: 2, Int: map[uint16]string{9: "x"}}, {Seq: 3}} {
			p := k.params()
			for failAt := 1; failAt <= 40; failAt++ {
				c.Eval(1)
				before := fmt.Sprint(len(p.StrInfo), len(p.IntInfo), p.StrInfo[ttheader.GDPRToken])
				fw := &failWriter{failAt: failAt}
				fw.sink = &EnvWriter{}
				var err error
				pi := mc.Try(func() { _, err = ttheader.Encode(context.Background(), p, fw) })
				after := fmt.Sprint(len(p.StrInfo), len(p.IntInfo), p.StrInfo[ttheader.GDPRToken])
				if pi != nil || before != after || (err == nil && fw.ops >= failAt) {
					c.Violate("failwriter", "C06|failing-writer", fmt.Sprintf("Encode into a writer that fails at its operation #%d: panic=%v err=%v parameters before/after %q/%q", failAt, pi != nil, err, before, after), c06Fail{Case: k, FailAt: failAt})
					break
				}
			}
		}
		c.Done("Encode into a writer failing at its k-th Malloc/WriteBinary for every k <= 40, three parameter sets")
	}
	// (6) twelve frames through ONE writer and ONE reader (a long-lived connection)
	if c.Mine() {
		c06Connection(c)
		c.Done("12 frames through one writer (Flush after each) and one reader (Release after each)")
	}
	c.Count("encodes-succeeded", nenc)
	c.Count("encodes-failed-or-skipped", nfail)
	c.Done("limit sweep: for string-KV-only, int-KV-only, ACL-only and all-three-sections frames one value length is swept so that the unpadded header-info size takes every value in 65500..65545")
	keys := make([]int, 0)
	for r := range resid {
		keys = append(keys, r)
	}
	sort.Ints(keys)
}

func init() {
	Register(&Check{
		ID: "C06", Level: "exploration",
		Rule:          "all 65536 flag words; all 256 protocol ids (the 5 supported ones take part in the round trip, the others in layout conformance); sequence ids incl. every single bit; all string-keyed x int-keyed maps with <= 2 (thorough 3) entries over key/value alphabets so that every padding residue and every section combination occurs; limit sweep of the unpadded header-info size over 65500..65545 for four section shapes; writers {EncodeToBytes, Encode into a bytes writer with non-empty initial slice, Encode into an io.Writer-backed writer}; readers {DecodeFromBytes, Decode over bytes reader, Decode over stream reader under fragmentation}; payloads 0..70000 bytes with the total-length field patched through the returned slice; distinct = distinct parameter sets",
		Assumptions:   []string{"when Encode returns an error nothing more is required (counted under encodes-failed-or-skipped)", "decoded maps are compared modulo nil/empty; Go map iteration order inside Encode is not owned: the layout oracle parses sections order-insensitively"},
		Run:           c06Run,
		UnownedNondet: func(sub string, raw json.RawMessage) bool { return true },
		Replay: func(c *mc.Ctx, sub string, raw json.RawMessage) {
			if sub == "connection" {
				c06Connection(c)
				return
			}
			if sub == "failwriter" {
				replayAs(raw, func(f c06Fail) {
					p := f.Case.params()
					fw := &failWriter{failAt: f.FailAt}
					fw.sink = &EnvWriter{}
					before := fmt.Sprint(len(p.StrInfo), len(p.IntInfo), p.StrInfo[ttheader.GDPRToken])
					var err error
					pi := mc.Try(func() { _, err = ttheader.Encode(context.Background(), p, fw) })
					after := fmt.Sprint(len(p.StrInfo), len(p.IntInfo), p.StrInfo[ttheader.GDPRToken])
					if pi != nil || before != after || (err == nil && fw.ops >= f.FailAt) {
						c.Violate("failwriter", "C06|failing-writer", fmt.Sprintf("Encode into a writer that fails at its operation #%d: panic=%v err=%v parameters before/after %q/%q", f.FailAt, pi != nil, err, before, after), f)
					}
				})
				return
			}
			replayAs(raw, func(k c06Case) {
				setAllocCap(64 << 20)
				withEnvChoices(k.EnvChoices, func() { c06One(c, k) })
			})
		},
	})
}
