package checks

import (
	"encoding/json"
	"fmt"
	"math/bits"
	"os"
	"sort"
	"strings"

	"github.com/cloudwego/gopkg/container/strmap"

	"verif/mc"
	"verif/vdump"
)

// C07 — read-only string maps answer exactly like a Go map.
// The hash function is owned by the harness (overlay knob in internal/hash/maphash), so the
// explorer — not chance — decides every collision chain.

var c07Keys = []string{"", "a", "b", "ab", "ba", "abc", "a\x00", "\x00", "\xff\xfe", strings.Repeat("a", 40), strings.Repeat("a", 39) + "b"}

type c07Load struct {
	Keys    []int  `json:"key_indices"`  // indices into the key alphabet (or generated keys when Gen > 0)
	Slots   []int  `json:"slots"`        // slot of each key (-1 = last slot)
	Variant int    `json:"hash_variant"` // how a slot is realised as a 64-bit hash: 0 slot, 1 slot+3*slots, 2 slot + bits above 2^32
	Via     string `json:"via"`          // slice | map | fail (mismatched lengths)
	Gen     int    `json:"gen_keys,omitempty"`
}

type c07Case struct {
	Kind  string    `json:"value_kind"` // int | struct | str2str
	Loads []c07Load `json:"loads"`
	Fresh bool      `json:"never_loaded,omitempty"`
	Ctor  string    `json:"constructed,omitempty"`     // "" New()/NewStr2Str() | "zero" the zero value (not initialised) | "ctor" the first load goes through New*FromSlice / New*FromMap
	Real  bool      `json:"real_hash,omitempty"`       // the repository's real (seeded) hash instead of the harness-owned one
	All   bool      `json:"probe_all_slots,omitempty"` // absent probes hashed to every slot (thorough) or to {0,1,last}
	// formula part
	Formula string `json:"formula,omitempty"`
	N       int    `json:"n,omitempty"`
}

type c07Struct struct {
	A   int32
	B   uint8
	C   [3]uint16
	Pad [7]uint64 // makes the value (and with it a map item) larger than a cache line: implementations may treat big items differently
}

func hashFor(slot, slots, variant int) uint64 {
	if slots < 1 {
		slots = 1
	}
	if slot < 0 {
		slot = slots - 1
	}
	slot %= slots
	switch variant {
	case 1:
		return uint64(slot + 3*slots)
	case 2:
		return uint64(slot) | uint64(0xdead)<<32 // the code truncates to uint32 before the modulo
	}
	return uint64(slot)
}

// slotsFor mirrors the documented sizing rule: a prime from the table chosen by bits.Len(n/0.75); learnt from the code via a probe load.
func c07SlotsFor(n int) int {
	m := strmap.New[int]()
	kk := make([]string, n)
	vv := make([]int, n)
	for i := range kk {
		kk[i] = fmt.Sprintf("probe-%d", i)
	}
	// (works under whatever hash is currently installed; must not touch the harness's hash knobs)
	if err := m.LoadFromSlice(kk, vv); err != nil {
		panic(err)
	}
	if l := vdump.IntSliceLens(m); len(l) > 0 {
		return l[0] // the slot table, found by its shape (a slice of integers), not by its name
	}
	return 0
}

var c07SlotCache = map[int]int{}

func slotsFor(n int) int {
	if s, ok := c07SlotCache[n]; ok {
		return s
	}
	s := c07SlotsFor(n)
	c07SlotCache[n] = s
	_ = bits.Len
	return s
}

// c07Map is the common view of StrMap[int], StrMap[c07Struct] and Str2Str.
type c07Map interface {
	load(kk []string, ids []int, via string) error
	get(k string) (int, bool) // value identity (index into the value table)
	length() int
	items() []string // "key=valueid", sorted; nil if the type has no enumeration
	digest() string
	str() string   // the type's String() method ("" if it has none): a read-only operation
	hasSync() bool // the type holds a synchronisation primitive: a change of private state may be legitimate
}

type c07Int struct{ m *strmap.StrMap[int] }

func (x c07Int) load(kk []string, ids []int, via string) error {
	vv := make([]int, len(ids))
	for i, id := range ids {
		vv[i] = id*7 + 1
	}
	switch via {
	case "map":
		mm := map[string]int{}
		for i := range kk {
			mm[kk[i]] = vv[i]
		}
		return x.m.LoadFromMap(mm)
	case "fail":
		return x.m.LoadFromSlice(kk, vv[:len(vv)-1])
	}
	return x.m.LoadFromSlice(kk, vv)
}
func (x c07Int) get(k string) (int, bool) {
	v, ok := x.m.Get(k)
	if !ok {
		if v != 0 {
			return -2, false
		}
		return 0, false
	}
	if (v-1)%7 != 0 {
		return -1, true
	}
	return (v - 1) / 7, true
}
func (x c07Int) length() int { return x.m.Len() }
func (x c07Int) items() []string {
	r := []string{}
	for i := 0; i < x.m.Len(); i++ {
		k, v := x.m.Item(i)
		r = append(r, fmt.Sprintf("%q=%d", k, (v-1)/7))
	}
	sort.Strings(r)
	return r
}
func (x c07Int) hasSync() bool  { return vdump.HasSync(x.m) }
func (x c07Int) digest() string { return vdump.Key(x.m, vdump.Opt{Content: true}) }
func (x c07Int) str() string    { return x.m.String() }

type c07St struct{ m *strmap.StrMap[c07Struct] }

func mkStruct(id int) c07Struct {
	v := c07Struct{A: int32(id), B: uint8(id * 3), C: [3]uint16{uint16(id), 0xffff, uint16(id * 5)}}
	for i := range v.Pad {
		v.Pad[i] = uint64(id)*0x9e3779b97f4a7c15 + uint64(i)
	}
	return v
}
func (x c07St) load(kk []string, ids []int, via string) error {
	vv := make([]c07Struct, len(ids))
	for i, id := range ids {
		vv[i] = mkStruct(id)
	}
	switch via {
	case "map":
		mm := map[string]c07Struct{}
		for i := range kk {
			mm[kk[i]] = vv[i]
		}
		return x.m.LoadFromMap(mm)
	case "fail":
		return x.m.LoadFromSlice(kk, vv[:len(vv)-1])
	}
	return x.m.LoadFromSlice(kk, vv)
}
func (x c07St) get(k string) (int, bool) {
	v, ok := x.m.Get(k)
	if !ok {
		if v != (c07Struct{}) {
			return -2, false
		}
		return 0, false
	}
	if v != mkStruct(int(v.A)) {
		return -1, true
	}
	return int(v.A), true
}
func (x c07St) length() int { return x.m.Len() }
func (x c07St) items() []string {
	r := []string{}
	for i := 0; i < x.m.Len(); i++ {
		k, v := x.m.Item(i)
		r = append(r, fmt.Sprintf("%q=%d", k, v.A))
	}
	sort.Strings(r)
	return r
}
func (x c07St) hasSync() bool  { return vdump.HasSync(x.m) }
func (x c07St) digest() string { return vdump.Key(x.m, vdump.Opt{Content: true}) }
func (x c07St) str() string    { return x.m.String() }

type c07S2S struct{ m *strmap.Str2Str }

var s2sBacking = strings.Repeat("GET /index.html?long-value-", 12)

func s2sVal(id int) string {
	if id%100 == 3 { // longer than 65535 bytes (the store keeps a 4-byte length)
		return strings.Repeat("0123456789abcdef", 4400) + fmt.Sprint(id)
	}
	switch id % 4 {
	case 0:
		return ""
	case 1:
		return s2sBacking[:3+id%5] // neighbours 1 and 2 are prefixes of ONE backing string: same data pointer, different lengths
	case 2:
		return s2sBacking[:40+id%9]
	}
	return "shared"
}
func (x c07S2S) load(kk []string, ids []int, via string) error {
	vv := make([]string, len(ids))
	for i, id := range ids {
		vv[i] = s2sVal(id)
	}
	switch via {
	case "map":
		mm := map[string]string{}
		for i := range kk {
			mm[kk[i]] = vv[i]
		}
		return x.m.LoadFromMap(mm)
	case "fail":
		return x.m.LoadFromSlice(kk, vv[:len(vv)-1])
	}
	return x.m.LoadFromSlice(kk, vv)
}
func (x c07S2S) get(k string) (int, bool) {
	v, ok := x.m.Get(k)
	if !ok {
		if v != "" {
			return -2, false
		}
		return 0, false
	}
	return -100, true // identity resolved by the caller through getStr
}
func (x c07S2S) getStr(k string) (string, bool) { return x.m.Get(k) }
func (x c07S2S) length() int                    { return x.m.Len() }
func (x c07S2S) items() []string                { return nil }
func (x c07S2S) hasSync() bool                  { return vdump.HasSync(x.m) }
func (x c07S2S) digest() string                 { return vdump.Key(x.m, vdump.Opt{Content: true}) }
func (x c07S2S) str() string                    { return "n/a" } // no String method

func c07New(kind string) c07Map {
	switch kind {
	case "struct":
		return c07St{strmap.New[c07Struct]()}
	case "str2str":
		return c07S2S{strmap.NewStr2Str()}
	}
	return c07Int{strmap.New[int]()}
}

// c07Zero returns the not-initialised (zero) value of the map type.
func c07Zero(kind string) c07Map {
	switch kind {
	case "struct":
		return c07St{new(strmap.StrMap[c07Struct])}
	case "str2str":
		return c07S2S{new(strmap.Str2Str)}
	}
	return c07Int{new(strmap.StrMap[int])}
}

// c07Construct builds a loaded map through the constructor functions (which panic on failure).
func c07Construct(kind string, kk []string, ids []int, via string) c07Map {
	switch kind {
	case "struct":
		vv := make([]c07Struct, len(ids))
		for i, id := range ids {
			vv[i] = mkStruct(id)
		}
		if via == "map" {
			mm := map[string]c07Struct{}
			for i := range kk {
				mm[kk[i]] = vv[i]
			}
			return c07St{strmap.NewFromMap(mm)}
		}
		return c07St{strmap.NewFromSlice(kk, vv)}
	case "str2str":
		vv := make([]string, len(ids))
		for i, id := range ids {
			vv[i] = s2sVal(id)
		}
		if via == "map" {
			mm := map[string]string{}
			for i := range kk {
				mm[kk[i]] = vv[i]
			}
			return c07S2S{strmap.NewStr2StrFromMap(mm)}
		}
		return c07S2S{strmap.NewStr2StrFromSlice(kk, vv)}
	}
	vv := make([]int, len(ids))
	for i, id := range ids {
		vv[i] = id*7 + 1
	}
	if via == "map" {
		mm := map[string]int{}
		for i := range kk {
			mm[kk[i]] = vv[i]
		}
		return c07Int{strmap.NewFromMap(mm)}
	}
	return c07Int{strmap.NewFromSlice(kk, vv)}
}

func keyOf(l *c07Load, i int) string {
	if l.Gen > 0 {
		return fmt.Sprintf("k%d", l.Keys[i])
	}
	return c07Keys[l.Keys[i]]
}

// c07Hist runs a history of loads on one instance and compares every answer with a Go map.
func c07Hist(c *mc.Ctx, k c07Case, _ func(slots int) []int) {
	c.Eval(1)
	slotAlpha := func(slots int) []int {
		if slots < 1 {
			return []int{0} // the table size is learnt from the code under test: never let a bogus size silence the probes
		}
		if slots <= 3 || k.All {
			r := make([]int, slots)
			for i := range r {
				r[i] = i
			}
			return r
		}
		return []int{0, 1, slots - 1}
	}
	bad := func(class, format string, a ...interface{}) {
		c.Violate("hist", fmt.Sprintf("C07|%s|%s", k.Kind, class), fmt.Sprintf("%s map, loads %+v: ", k.Kind, k.Loads)+fmt.Sprintf(format, a...), k)
	}
	model := map[string]int{}
	table := map[string]uint64{}
	if k.Real {
		strmap.VerifSetHash(nil, nil)
	} else {
		strmap.VerifSetHash(table, func(s string) uint64 { return 0 })
	}
	defer strmap.VerifSetHash(nil, nil)
	step := -1
	pi := mc.Try(func() {
		m := c07New(k.Kind)
		if k.Ctor == "zero" {
			m = c07Zero(k.Kind)
		}
		variant0 := 0
		if len(k.Loads) > 0 {
			variant0 = k.Loads[0].Variant
		}
		probeAll := func(when string, slots int) bool {
			if got := m.length(); got != len(model) {
				bad("len", "%s: Len() = %d, want %d", when, got, len(model))
				return false
			}
			if its := m.items(); its != nil {
				want := []string{}
				for kk, id := range model {
					want = append(want, fmt.Sprintf("%q=%d", kk, id))
				}
				sort.Strings(want)
				if strings.Join(its, ",") != strings.Join(want, ",") {
					bad("items", "%s: item enumeration %v, want %v", when, its, want)
					return false
				}
			}
			d0 := m.digest()
			m.str() // String() is a query like the others: what it returns is not specified, what it must not do is disturb the map
			for _, p := range c07Keys {
				id, present := model[p]
				var alts []int
				if present || k.Real {
					alts = []int{0} // the hash of a loaded key is fixed by its load
				} else {
					alts = slotAlpha(slots)
				}
				for _, s := range alts {
					if !present {
						table[p] = hashFor(s, slots, variant0)
					}
					gid, ok := m.get(p)
					if ok != present {
						bad(map[bool]string{true: "absent-key-found", false: "loaded-key-missing"}[ok], "%s: Get(%q) present=%v, want %v (probe hashed to slot %d of %d)", when, p, ok, present, s, slots)
						return false
					}
					if !ok && gid == -2 {
						bad("absent-nonzero", "%s: Get(%q) reported absent with a non-zero value", when, p)
						return false
					}
					if ok {
						if sm, isS := m.(c07S2S); isS {
							if v, _ := sm.getStr(p); v != s2sVal(id) {
								bad("wrong-value", "%s: Get(%q) = %q, want %q", when, p, v, s2sVal(id))
								return false
							}
						} else if gid != id {
							bad("wrong-value", "%s: Get(%q) returned the value of another key (value id %d, want %d)", when, p, gid, id)
							return false
						}
					}
				}
			}
			if d1 := m.digest(); d1 != d0 && !m.hasSync() {
				bad("get-writes", "%s: a read-only operation (String, Get) modified the private state of a map that holds no synchronisation primitive (digest %s -> %s): the map is not read-only", when, d0, d1)
				return false
			}
			return true
		}
		if k.Fresh {
			if !probeAll("never loaded", 1) {
				return
			}
		}
		slots := 1
		for si := range k.Loads {
			step = si
			l := &k.Loads[si]
			n := len(l.Keys)
			ns := slotsFor(n)
			kk := make([]string, n)
			ids := make([]int, n)
			for i := range kk {
				kk[i] = keyOf(l, i)
				ids[i] = si*100 + i
			}
			if l.Via == "fail" {
				if n == 0 {
					continue
				}
				if err := m.load(kk, ids, "fail"); err == nil {
					bad("bad-load-accepted", "load #%d with mismatched key/value lengths returned nil", si)
					return
				}
				// "a failed load changes nothing": nothing a user can observe (checked by the probes below); what it does to its
				// private buffers is its own business
				if si == 0 && !k.Fresh {
					// never successfully loaded: every key must be absent
					if !probeAll(fmt.Sprintf("after failed load #%d on a never-loaded map", si), 1) {
						return
					}
					continue
				}
				if !probeAll(fmt.Sprintf("after failed load #%d", si), slots) {
					return
				}
				continue
			}
			for i := range kk {
				table[kk[i]] = hashFor(l.Slots[i], ns, l.Variant)
			}
			if si == 0 && k.Ctor == "ctor" && !k.Fresh {
				m = c07Construct(k.Kind, kk, ids, l.Via)
			} else if err := m.load(kk, ids, l.Via); err != nil {
				bad("load-error", "load #%d failed: %v", si, err)
				return
			}
			slots = ns
			for kk2 := range model {
				delete(model, kk2)
			}
			for i := range kk {
				model[kk[i]] = ids[i]
			}
			if !probeAll(fmt.Sprintf("after load #%d (%d keys, %d slots)", si, n, ns), slots) {
				return
			}
		}
		// last step of every history: an input that some implementations reject (the same key twice).  Whatever the load
		// does with it when it accepts it is outside the property (keys are distinct); IF it rejects it, that is a failed
		// load and must change nothing
		step = len(k.Loads)
		dk := []string{c07Keys[1], c07Keys[2], c07Keys[1]}
		if err := m.load(dk, []int{901, 902, 903}, "slice"); err != nil {
			if !probeAll("after a load that was rejected (it named a key twice)", slots) {
				return
			}
		}
	})
	if pi != nil {
		bad("panic:"+pi.Class, "panic at step %d: %s at %s", step, pi.Msg, pi.Frame)
	}
}

func combos(n, k int, f func(idx []int)) {
	idx := make([]int, k)
	var rec func(start, d int)
	rec = func(start, d int) {
		if d == k {
			f(idx)
			return
		}
		for i := start; i < n; i++ {
			idx[d] = i
			rec(i+1, d+1)
		}
	}
	rec(0, 0)
}

func c07Run(c *mc.Ctx) {
	th := c.Thorough()
	maxSet := 4
	alpha := func(slots int) []int {
		if slots <= 3 {
			r := make([]int, slots)
			for i := range r {
				r[i] = i
			}
			return r
		}
		return []int{0, 1, slots - 1}
	}
	if th {
		maxSet = 4
		alpha = func(slots int) []int {
			r := make([]int, slots)
			for i := range r {
				r[i] = i
			}
			return r
		}
	}
	// (0) more than 4 GiB of key bytes in one load (thorough; skipped when less than 24 GiB of memory are available); first,
	// so that a deadline met later cannot cut it off
	if th && c.Mine() {
		if g := memAvailableGiB(); g >= 24 {
			c.Distinct("huge")
			c07Huge(c, c07Case{Kind: "int", Formula: "huge-keys", Real: true})
			c.Done("one load holding more than 4 GiB of key bytes (5 keys of about 1 GiB, prefixes of one another, then short keys beyond the 4 GiB mark): Len, Get of every key, absent probes, Item enumeration")
		} else {
			c.Count(fmt.Sprintf("load-with-more-than-4GiB-of-key-bytes-skipped-(%d-GiB-of-memory-available,-24-wanted)", g), 1)
		}
	}
	kinds := []string{"int", "struct", "str2str"}
	// (1) never-loaded instances
	for _, kd := range kinds {
		c07Hist(c, c07Case{Kind: kd, Fresh: true, All: th, Loads: []c07Load{{Via: "fail"}}}, alpha)
		// the zero value of Str2Str ("not initialized", which the repository's own test loads into) was never loaded
		// either: queries report every key absent.  Nothing is claimed for a zero StrMap[V]: it has no hash seed, cannot
		// be loaded, and nothing in the repository suggests it is a supported state.
		if kd == "str2str" {
			c07Hist(c, c07Case{Kind: kd, Ctor: "zero", Fresh: true, All: th}, alpha)
		}
	}
	// (2) all key sets of size 0..maxSet x every slot assignment x hash realisations
	var nsets int64
	for sz := 0; sz <= maxSet; sz++ {
		slots := slotsFor(sz)
		sa := alpha(slots)
		combos(len(c07Keys), sz, func(idx []int) {
			if !c.Mine() {
				return
			}
			if c.Expired() {
				return
			}
			nsets++
			assign := make([]int, sz)
			var rec func(d int)
			rec = func(d int) {
				if d == sz {
					for variant := 0; variant < 3; variant++ {
						kd := kinds[(variant+len(idx))%3]
						if sz <= 2 { // small sets: every value kind
							for _, kk := range kinds {
								c07Hist(c, c07Case{Kind: kk, All: th, Loads: []c07Load{{Keys: append([]int{}, idx...), Slots: append([]int{}, assign...), Variant: variant, Via: "slice"}}}, alpha)
							}
							continue
						}
						c07Hist(c, c07Case{Kind: kd, All: th, Loads: []c07Load{{Keys: append([]int{}, idx...), Slots: append([]int{}, assign...), Variant: variant, Via: []string{"slice", "map"}[variant%2]}}}, alpha)
					}
					c.Distinct("set", fmt.Sprint(idx), fmt.Sprint(assign))
					return
				}
				for _, s := range sa {
					assign[d] = s
					rec(d + 1)
				}
			}
			rec(0)
		})
	}
	if c.Expired() {
		c.Incomplete("key sets x slot assignments: deadline")
		return
	}
	c.Sample("set", c07Case{Kind: "int", Loads: []c07Load{{Keys: []int{1, 3, 5}, Slots: []int{-1, -1, -1}, Variant: 2, Via: "slice"}}})
	c.Done(fmt.Sprintf("all key sets of size 0..%d over an 11-key alphabet (empty key, prefixes of one another, binary, 40-byte near-duplicates) x every slot assignment over the slot alphabet x 3 hash realisations; every key of the alphabet probed, absent probes hashed to every slot of the alphabet", maxSet))
	// (3) histories: all sequences of <= 3 loads on one instance (grow, shrink, shrink to empty, reload equal, failing load)
	specs := []c07Load{
		{Keys: []int{}, Slots: []int{}, Via: "slice"},
		{Keys: []int{1}, Slots: []int{0}, Via: "map"},
		{Keys: []int{1, 3}, Slots: []int{-1, -1}, Via: "slice"},
		{Keys: []int{0, 2, 4}, Slots: []int{0, 5, -1}, Via: "slice"},
		{Keys: []int{0, 1, 2, 3, 4, 5, 6, 7, 8, 9}, Slots: []int{3, 3, 3, 3, 3, 3, 3, 3, 3, 3}, Via: "slice"},
		{Keys: []int{9, 10, 5, 3, 1}, Slots: []int{-1, -1, 0, 0, 16}, Via: "map"},
		{Keys: []int{5, 4, 3, 2, 1, 0}, Slots: []int{2, 2, -1, 0, 2, -1}, Via: "slice"},
		{Keys: []int{1, 2}, Slots: []int{0, 0}, Via: "fail"},
	}
	ns := len(specs)
	for a := 0; a < ns; a++ {
		for b := -1; b < ns; b++ {
			for d := -1; d < ns; d++ {
				if b < 0 && d >= 0 {
					continue
				}
				for _, kd := range kinds {
					for _, fresh := range []bool{false, true} {
						if !c.Mine() {
							continue
						}
						ls := []c07Load{specs[a]}
						if b >= 0 {
							ls = append(ls, specs[b])
						}
						if d >= 0 {
							ls = append(ls, specs[d])
						}
						c.Distinct("hist", a, b, d, kd, fresh)
						c07Hist(c, c07Case{Kind: kd, All: th, Loads: ls, Fresh: fresh}, alpha)
						c07Hist(c, c07Case{Kind: kd, Real: true, Loads: ls, Fresh: fresh}, alpha)
						if !fresh && ls[0].Via != "fail" { // the first load through New*FromSlice / New*FromMap
							c07Hist(c, c07Case{Kind: kd, Ctor: "ctor", All: th, Loads: ls}, alpha)
							c07Hist(c, c07Case{Kind: kd, Ctor: "ctor", Real: true, Loads: ls}, alpha)
						}
						if kd == "str2str" { // a not-initialised Str2Str loads like a constructed one
							c07Hist(c, c07Case{Kind: kd, Ctor: "zero", All: th, Loads: ls, Fresh: fresh}, alpha)
							c07Hist(c, c07Case{Kind: kd, Ctor: "zero", Real: true, Loads: ls, Fresh: fresh}, alpha)
						}
					}
				}
			}
		}
	}
	c.Done("all sequences of <= 3 loads over 8 load specs (empty, 1, 2 colliding in the last slot, 3 spread, 10 all-colliding, 5 mixed via map, 6 mixed via slices, failing) x 3 value kinds, probed after every step, also starting from a never-loaded instance, with the first load through the New*From* constructors, and (Str2Str) starting from the zero value")
	// (4) table sizes: every n in 0..300 and around every row of the prime table up to 10^5 keys, formula hashes
	var sizes []int
	for n := 0; n <= 300; n++ {
		sizes = append(sizes, n)
	}
	maxB := 13
	if th {
		maxB = 17
	}
	for b := 9; b <= maxB; b++ {
		base := (3 << b) / 4
		sizes = append(sizes, base-1, base, base+1)
	}
	for _, n := range sizes {
		for _, f := range []string{"identity", "all-collide", "stride", "bitrev"} {
			if !c.Mine() {
				continue
			}
			if c.Expired() {
				c.Incomplete("table sizes: deadline")
				return
			}
			if (f == "all-collide") && n > 3000 {
				continue // a single chain of n items is quadratic; covered up to 3000
			}
			c.Distinct("formula", n, f)
			c07Formula(c, c07Case{Kind: "int", Formula: f, N: n})
		}
	}
	c.Done(fmt.Sprintf("table sizes: every n in 0..300 and floor(0.75*2^b)+{-1,0,1} for b in 9..%d under 4 formula hashes (identity, all-collide, stride = slots, bit-reversed), all present keys and n absent keys probed", maxB))
}

// c07Huge: one load whose keys hold more than 4 GiB in total (five keys of about 1 GiB that are prefixes of one another and
// share one backing string, then two short keys whose bytes lie beyond the 4 GiB mark), real hash.  Needs about 7 GiB
// of memory for about 20 s; thorough tier only, and only when the machine has the memory to spare.
func c07Huge(c *mc.Ctx, k c07Case) {
	c.Eval(1)
	bad := func(class, format string, a ...interface{}) {
		c.Violate("huge", "C07|huge|"+class, "one load with more than 4 GiB of key bytes: "+fmt.Sprintf(format, a...), k)
	}
	strmap.VerifSetHash(nil, nil)
	pi := mc.Try(func() {
		const G = 1 << 30
		backing := strings.Repeat("0123456789abcdef", G/16+1)
		var kk []string
		var vv []int
		for i := 0; i < 5; i++ {
			kk = append(kk, backing[:G-i])
			vv = append(vv, 100+i)
		}
		kk = append(kk, "tail", "t2", "")
		vv = append(vv, 7, 8, 9)
		m := strmap.New[int]()
		if err := m.LoadFromSlice(kk, vv); err != nil {
			bad("load-error", "%v", err)
			return
		}
		if m.Len() != len(kk) {
			bad("len", "Len() = %d, want %d", m.Len(), len(kk))
			return
		}
		for i, key := range kk {
			if v, ok := m.Get(key); !ok || v != vv[i] {
				bad("loaded-key-missing", "Get(key #%d of %d bytes) = (%d, %v), want (%d, true)", i, len(key), v, ok, vv[i])
				return
			}
		}
		for _, key := range []string{backing[:G-5], backing[:G+1], "tai", "tail2", "t"} {
			if v, ok := m.Get(key); ok || v != 0 {
				bad("absent-key-found", "Get(absent key of %d bytes) = (%d, %v)", len(key), v, ok)
				return
			}
		}
		seen := map[int]bool{}
		for i := 0; i < m.Len(); i++ {
			key, v := m.Item(i)
			j := -1
			for x := range kk {
				if vv[x] == v {
					j = x
				}
			}
			if j < 0 || len(key) != len(kk[j]) || key != kk[j] || seen[v] {
				bad("items", "Item(%d) = (key of %d bytes, %d) is not one of the loaded pairs", i, len(key), v)
				return
			}
			seen[v] = true
		}
	})
	if pi != nil {
		bad("panic:"+pi.Class, "panic: %s at %s", pi.Msg, pi.Frame)
	}
}

// memAvailableGiB reads MemAvailable from /proc/meminfo (0 if unknown).
func memAvailableGiB() int {
	b, err := os.ReadFile("/proc/meminfo")
	if err != nil {
		return 0
	}
	for _, l := range strings.Split(string(b), "\n") {
		if strings.HasPrefix(l, "MemAvailable:") {
			var kb int
			fmt.Sscanf(strings.TrimSpace(strings.TrimPrefix(l, "MemAvailable:")), "%d", &kb)
			return kb >> 20
		}
	}
	return 0
}

func c07Formula(c *mc.Ctx, k c07Case) {
	c.Eval(1)
	n := k.N
	slots := slotsFor(n)
	num := func(s string) uint64 {
		var x uint64
		for i := 1; i < len(s); i++ {
			x = x*10 + uint64(s[i]-'0')
		}
		return x
	}
	var fn func(s string) uint64
	switch k.Formula {
	case "identity":
		fn = num
	case "all-collide":
		fn = func(s string) uint64 { return uint64(slots - 1) }
	case "stride":
		fn = func(s string) uint64 { return num(s) * uint64(slots) }
	default:
		fn = func(s string) uint64 { return uint64(bits.Reverse32(uint32(num(s)))) | 0xabc<<32 }
	}
	strmap.VerifSetHash(map[string]uint64{}, fn)
	defer strmap.VerifSetHash(nil, nil)
	bad := func(class, format string, a ...interface{}) {
		c.Violate("formula", "C07|formula|"+class, fmt.Sprintf("%d keys, %d slots, hash %s: ", n, slots, k.Formula)+fmt.Sprintf(format, a...), k)
	}
	pi := mc.Try(func() {
		kk := make([]string, n)
		vv := make([]int, n)
		for i := range kk {
			kk[i] = fmt.Sprintf("k%d", i)
			vv[i] = i + 1
		}
		m := strmap.New[int]()
		if err := m.LoadFromSlice(kk, vv); err != nil {
			bad("load-error", "%v", err)
			return
		}
		if m.Len() != n {
			bad("len", "Len() = %d", m.Len())
			return
		}
		for i := 0; i < n; i++ {
			if v, ok := m.Get(kk[i]); !ok || v != i+1 {
				bad("loaded-key-missing", "Get(%q) = (%d, %v)", kk[i], v, ok)
				return
			}
		}
		for i := n; i < 2*n+3; i++ {
			if v, ok := m.Get(fmt.Sprintf("k%d", i)); ok || v != 0 {
				bad("absent-key-found", "Get(k%d) = (%d, %v) for a key that was not loaded", i, v, ok)
				return
			}
		}
	})
	if pi != nil {
		bad("panic:"+pi.Class, "panic: %s at %s", pi.Msg, pi.Frame)
	}
}

func init() {
	Register(&Check{
		ID: "C07", Level: "exploration",
		Rule:        "harness-owned hash: all key sets of size 0..3 (thorough 0..4) over an 11-key alphabet x every key->slot function over the slot alphabet {0,1,last} (thorough: all slots) x 3 realisations of a slot as a 64-bit hash; every alphabet string probed, absent probes hashed into every slot; value kinds int / pointer-free struct / string (Str2Str); all sequences of <= 3 loads (map / slices / failing) on one instance incl. never-loaded instances; Get must leave the private state bit-identical; table sizes: every n in 0..300 and around every row of the prime table under 4 formula hashes; distinct = distinct (key set, slot assignment) / histories / (n, formula)",
		Assumptions: []string{"keys within one load are distinct (as the statement requires)", "the controllable hash preserves the truncation to uint32 that the code applies before the modulo"},
		Run:         c07Run,
		UnownedNondet: func(sub string, raw json.RawMessage) bool {
			return strings.Contains(string(raw), `"via":"map"`) || strings.Contains(string(raw), `"via": "map"`)
		},
		Replay: func(c *mc.Ctx, sub string, raw json.RawMessage) {
			replayAs(raw, func(k c07Case) {
				if k.Formula == "huge-keys" {
					c07Huge(c, k)
					return
				}
				if k.Formula != "" {
					c07Formula(c, k)
					return
				}
				c07Hist(c, k, func(slots int) []int {
					r := make([]int, slots)
					for i := range r {
						r[i] = i
					}
					return r
				})
			})
		},
	})
}
