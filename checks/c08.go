package checks

import (
	"encoding/hex"
	"encoding/json"
	"fmt"
	"github.com/bytedance/gopkg/lang/mcache"

	"verif/gen"
	"verif/mc"
	"verif/ref"
)

// C08 — skippers reject malformed input and agree with the grammar; recursion is bounded.

type c08Case struct {
	InputHex string `json:"input_hex"`
	Type     int8   `json:"type"`
	Skipper  string `json:"skipper"`
	Env      EnvCfg `json:"env"`
	Desc     string `json:"desc,omitempty"`
}

var c08Types = []int8{ref.BOOL, ref.BYTE, ref.DOUBLE, ref.I16, ref.I32, ref.I64, ref.STRING, ref.STRUCT, ref.MAP, ref.SET, ref.LIST, 0, 1, 5, 16, 0x7f, -128, -1}

func causeString(c ref.Cause) string {
	s := ""
	if c&ref.Truncated != 0 {
		s += "truncated "
	}
	if c&ref.NegativeSize != 0 {
		s += "negative-size "
	}
	if c&ref.UnknownType != 0 {
		s += "unknown-type "
	}
	return s
}

// allocIntercepted reports (once per process and skipper) whether the skipper's buffer allocations go through the
// harness's allocator shim.  They do on the unchanged tree (bufiox and the io.Reader decoder allocate from the shared
// pool, which the overlay replaces); a variant of the library that allocates with make() is just as correct, but then a
// hostile declared size of 2 GiB really allocates and clears 2 GiB per case.  For such a variant inputs in which any 4-byte
// window reads as more than 64 KiB are not run on that skipper (counted, reported in the evidence) instead of grinding the worker down.
var allocInterceptedCache = map[string]bool{}

func allocIntercepted(sk string) bool {
	if v, ok := allocInterceptedCache[sk]; ok {
		return v
	}
	enc := []byte{0x00, 0x01, 0x86, 0xa0, 'a', 'b', 'c', 'd'} // a string that declares 100000 bytes and delivers 4: the skipper has to get a buffer for it
	m0, _, _, _, _ := mcache.VerifStats()
	runSkipperOpt(sk, enc, ref.STRING, EnvCfg{Chunk: 1000}, false, false)
	m1, _, _, _, _ := mcache.VerifStats()
	allocInterceptedCache[sk] = m1 > m0
	return m1 > m0
}

// anySizeFieldOver: some 4-byte big-endian window of b reads as a value above lim (whatever the parser takes for a
// length or count, it is one of these windows).
func anySizeFieldOver(b []byte, lim uint32) bool {
	for i := 0; i+4 <= len(b); i++ {
		if v := uint32(b[i])<<24 | uint32(b[i+1])<<16 | uint32(b[i+2])<<8 | uint32(b[i+3]); v > lim {
			return true
		}
	}
	return false
}

// skipCompare runs one skipper on one input and compares with the grammar reference.
func skipCompare(c *mc.Ctx, prop string, input []byte, t int8, sk string, env EnvCfg, desc string, rr *ref.SkipResult) {
	c.Eval(1)
	var r ref.SkipResult
	if rr != nil {
		r = *rr
	} else {
		r = ref.Skip(input, t)
	}
	if (isStreamSkipper(sk) || sk == skBufBytes || sk == skDecBytesR) && !allocIntercepted(sk) && anySizeFieldOver(input, 1<<16) {
		c.Count("not-run:possible-size-field-over-64KiB-and-allocations-of-this-skipper-bypass-the-shim", 1)
		return
	}
	o := runSkipper(sk, input, t, env, false)
	bad := func(class, format string, a ...interface{}) {
		c.Violate("skip", fmt.Sprintf("%s|%s|%s", prop, sk, class),
			fmt.Sprintf("%s, type %d, input %s (%s) [%s]: ", sk, t, mc.Hex(input), desc, env)+fmt.Sprintf(format, a...),
			c08Case{InputHex: hex.EncodeToString(input), Type: t, Skipper: sk, Env: env, Desc: desc})
	}
	if o.Panic != nil {
		bad("panic:"+o.Panic.Frame+":"+o.Panic.Class, "panic: %s at %s", o.Panic.Msg, o.Panic.Frame)
		return
	}
	if o.StackMismatch {
		bad("stack-held-input-differs", "%v", o.Err)
		return
	}
	if o.AllocCap {
		c.Count("alloc-cap-outcomes", 1)
		if r.OK && r.MaxDepth <= 63 {
			bad("alloc-on-valid", "asked for an allocation beyond the cap on an input the grammar accepts (%d bytes)", r.N)
		}
		return
	}
	switch {
	case r.OK && r.MaxDepth <= 63:
		if !o.OK {
			bad("rejected-valid", "rejected a value the grammar accepts (extent %d, nesting %d): %v", r.N, r.MaxDepth, o.Err)
		} else if o.N != r.N {
			bad("wrong-extent", "accepted with extent %d, the grammar says %d", o.N, r.N)
		}
	case r.OK && r.MaxDepth == 64:
		// boundary zone of the implementations' recursion limit: no agreement claimed
		if o.OK && o.N != r.N {
			bad("wrong-extent", "accepted with extent %d, the grammar says %d", o.N, r.N)
		}
	case r.OK: // nesting >= 65
		if o.OK {
			bad("depth-not-bounded", "accepted a value nested %d levels deep (limit 64)", r.MaxDepth)
		}
	default:
		if o.OK {
			bad("accepted-malformed", "accepted (extent %d) an input the grammar rejects: %s", o.N, causeString(r.Causes))
		}
	}
	// a decoder that has just rejected something went back to its pool: the next user must find it as good as new
	if !o.OK && sk != skBinary && sk != skBinStack && sk != skBufBytes && sk != skBufStream && sk != skBufLenient && sk != skTplCustom {
		c2 := runSkipperOpt(sk, c08Canary, ref.STRUCT, env, false, false)
		if c2.Panic != nil || c2.AllocCap || !c2.OK || c2.N != len(c08Canary)-1 || (c2.HasBytes && string(c2.Bytes) != string(c08Canary[:len(c08Canary)-1])) {
			bad("state-leaks-after-rejection", "after this rejected input, a fresh decoder from the pool mishandled a well-formed struct: %s (want extent %d)", describeOut(c2), len(c08Canary)-1)
		}
	}
}

// a well-formed struct followed by one trailing byte
var c08Canary = func() []byte {
	v := ref.Value{T: ref.STRUCT, F: []ref.Field{{ID: 1, V: ref.Value{T: ref.STRING, S: []byte("canary")}}, {ID: 2, V: ref.Value{T: ref.LIST, Elem: ref.I32, L: []ref.Value{{T: ref.I32, I: 7}, {T: ref.I32, I: 8}}}}}}
	return append(ref.Encode(nil, &v), 0x7e)
}()

func c08Run(c *mc.Ctx) {
	th := c.Thorough()
	setAllocCap(2 << 20)
	// (a) all strings over the grammar alphabet x requested types x all skippers
	L := 5
	if th {
		L = 6
	}
	full := EnvCfg{}
	var rej, acc int64
	buf := make([]byte, 0, 16)
	for n := 0; n <= L; n++ {
		total := int64(1)
		for i := 0; i < n; i++ {
			total *= int64(len(gen.GrammarAlphabet))
		}
		lo, hi := c.Span(total)
		for k := lo; k < hi; k++ {
			if k%4096 == 0 && c.Expired() {
				c.Incomplete(fmt.Sprintf("grammar-alphabet strings of length %d: deadline", n))
				return
			}
			s := gen.NthString(gen.GrammarAlphabet, n, k, buf[:0])
			for _, t := range c08Types {
				r := ref.Skip(s, t)
				if r.OK {
					acc++
				} else {
					rej++
				}
				for _, sk := range allSkippers {
					if !th && n == L && isStreamSkipper(sk) && sk != skReaderSkip {
						continue // quick: the longest strings on the stream readers are left to thorough (ReaderSkipDecoder stays)
					}
					skipCompare(c, "C08", s, t, sk, full, "grammar-alphabet string", &r)
					if isStreamSkipper(sk) && n >= 2 && (th || n < L) {
						// fragment boundaries inside structural headers
						skipCompare(c, "C08", s, t, sk, EnvCfg{Chunk: 1}, "grammar-alphabet string", &r)
						if n >= 5 {
							skipCompare(c, "C08", s, t, sk, EnvCfg{Chunk: 3, ErrWithLast: true}, "grammar-alphabet string", &r)
						}
					}
				}
			}
		}
	}
	c.R.Distinct += rej
	c.Count("grammar-strings-x-types-rejected-by-reference", rej)
	c.Count("grammar-strings-x-types-accepted-by-reference", acc)
	c.Sample("grammar-string", c08Case{InputHex: "0f0b000000020000", Type: ref.LIST, Skipper: skBinary, Desc: "list<string> size 2, truncated"})
	c.Done(fmt.Sprintf("all strings over the 12-byte grammar alphabet up to length %d x 18 requested types x 11 skipper/reader combinations", L))

	// (b) strict prefixes, (c) structural perturbations of the generated trees
	trees := gen.Trees(false, 12)
	envs := []EnvCfg{{}, {Chunk: 1}, {Chunk: 7, ErrWithLast: true}}
	trailer := []byte{0x00, 0x00, 0x00, 0x00, 0x01, 0x00}
	for ti := range trees {
		if !c.Mine() {
			continue
		}
		if c.Expired() {
			c.Incomplete("prefixes/perturbations: deadline")
			return
		}
		tr := &trees[ti]
		enc, marks := gen.Marks(&tr.V)
		for cut := 0; cut < len(enc); cut++ {
			r := ref.Skip(enc[:cut], tr.V.T)
			if r.OK {
				panic("reference accepts a strict prefix of " + tr.Name)
			}
			c.Distinct("prefix", enc[:cut], tr.V.T)
			for _, sk := range allSkippers {
				es := envs[:1]
				if isStreamSkipper(sk) {
					es = envs
				}
				for _, env := range es {
					skipCompare(c, "C08", enc[:cut], tr.V.T, sk, env, "strict prefix of "+tr.Name, &r)
				}
			}
		}
		withTrail := append(append([]byte{}, enc...), trailer...)
		ms := marks
		gen.Perturb(withTrail, ms, th, func(b []byte, desc string) bool {
			r := ref.Skip(b, tr.V.T)
			if !r.OK {
				c.Distinct("perturb", b, tr.V.T)
			}
			for _, sk := range allSkippers {
				skipCompare(c, "C08", b, tr.V.T, sk, full, tr.Name+" with "+desc, &r)
				if isStreamSkipper(sk) && len(b) <= 64 {
					skipCompare(c, "C08", b, tr.V.T, sk, EnvCfg{Chunk: 2}, tr.Name+" with "+desc, &r)
				}
			}
			return true
		})
	}
	c.Done(fmt.Sprintf("every strict prefix and every single structural perturbation (type tags, 4-byte sizes incl. 0x7fffffff/0x80000000/0xffffffff, field ids) of %d value trees x 11 skipper/reader combinations", len(trees)))

	// (c2) well-formed values whose declared sizes use the high bits of the low size half-word (must be accepted, exact extent)
	for _, tr := range gen.Trees(true, 2) {
		enc := ref.Encode(nil, &tr.V)
		if len(enc) < 4000 || !c.Mine() {
			continue
		}
		in := append(enc, 0x00, 0x7f)
		r := ref.SkipResult{OK: true, N: len(enc), MaxDepth: tr.V.Depth()}
		for _, sk := range allSkippers {
			skipCompare(c, "C08", in, tr.V.T, sk, full, "well-formed "+tr.Name, &r)
			if isStreamSkipper(sk) {
				// the value arrives in segments: from a source that also reports how much it can deliver right now (Len), and
				// from one that answers every other Read with (0, nil) while still making progress
				skipCompare(c, "C08", in, tr.V.T, sk, EnvCfg{Chunk: 1000, Len: true}, "well-formed "+tr.Name, &r)
				skipCompare(c, "C08", in, tr.V.T, sk, EnvCfg{Chunk: 60, ZeroReads: 1, ErrWithLast: true}, "well-formed "+tr.Name, &r)
			}
		}
	}
	// (c3) well-formed values read one after another from one decoder / reader without Release (consumed prefix)
	hv := c02HistN
	for a := 0; a < hv; a++ {
		for b := 0; b < hv; b++ {
			for _, dec := range []string{skDecStream, skDecBytesR, skReaderSkip} {
				if !c.Mine() {
					continue
				}
				c02HistOne(c, c02Hist{Decoder: dec, Seq: []int{a, b}, Env: EnvCfg{Chunk: 4096}, Prop: "C08"})
			}
		}
	}
	// (d) nesting chains 1..70 for every container kind and both leaf kinds
	for _, kind := range []string{"list", "set", "mapkey", "mapval", "struct"} {
		for _, leaf := range []int8{ref.BYTE, ref.STRING} {
			for d := 1; d <= 70; d++ {
				if !c.Mine() {
					continue
				}
				v := gen.Chain(kind, d, leaf)
				enc := append(ref.Encode(nil, &v), 0x00)
				r := ref.Skip(enc, v.T)
				if !r.OK || r.MaxDepth != d {
					panic("chain generator/reference disagreement")
				}
				c.Distinct("chain", kind, leaf, d)
				for _, sk := range allSkippers {
					skipCompare(c, "C08", enc, v.T, sk, full, fmt.Sprintf("%s chain of depth %d", kind, d), &r)
				}
			}
		}
	}
	// mixed-kind deep chains (a limit charged only for some container kinds shows here)
	kinds := []string{"list", "struct", "mapval", "set", "mapkey"}
	for d := 60; d <= 90; d++ {
		if !c.Mine() {
			continue
		}
		v := gen.Small(ref.BYTE, 0)
		for i := 0; i < d; i++ {
			inner := v
			switch kinds[i%len(kinds)] {
			case "list":
				v = ref.Value{T: ref.LIST, Elem: inner.T, L: []ref.Value{inner}}
			case "set":
				v = ref.Value{T: ref.SET, Elem: inner.T, L: []ref.Value{inner}}
			case "struct":
				v = ref.Value{T: ref.STRUCT, F: []ref.Field{{ID: 1, V: inner}}}
			case "mapval":
				v = ref.Value{T: ref.MAP, Key: ref.BYTE, Elem: inner.T, L: []ref.Value{{T: ref.BYTE, I: 1}, inner}}
			case "mapkey":
				v = ref.Value{T: ref.MAP, Key: inner.T, Elem: ref.BYTE, L: []ref.Value{inner, {T: ref.BYTE, I: 1}}}
			}
		}
		enc := ref.Encode(nil, &v)
		r := ref.Skip(enc, v.T)
		for _, sk := range allSkippers {
			skipCompare(c, "C08", enc, v.T, sk, full, fmt.Sprintf("mixed-kind chain of depth %d", d), &r)
		}
	}
	// block-wise mixed chains: a run of one container kind inside / outside runs of another (an implementation that walks
	// runs of one kind iteratively and charges the limit per run instead of per level shows here)
	wrap := func(kind string, inner ref.Value) ref.Value {
		switch kind {
		case "list":
			return ref.Value{T: ref.LIST, Elem: inner.T, L: []ref.Value{inner}}
		case "set":
			return ref.Value{T: ref.SET, Elem: inner.T, L: []ref.Value{inner}}
		case "struct":
			return ref.Value{T: ref.STRUCT, F: []ref.Field{{ID: 1, V: inner}}}
		case "mapval":
			return ref.Value{T: ref.MAP, Key: ref.BYTE, Elem: inner.T, L: []ref.Value{{T: ref.BYTE, I: 1}, inner}}
		}
		return ref.Value{T: ref.MAP, Key: inner.T, Elem: ref.BYTE, L: []ref.Value{inner, {T: ref.BYTE, I: 1}}}
	}
	for _, a := range kinds {
		for _, b := range kinds {
			if a == b {
				continue
			}
			for _, d := range []int{63, 65, 66, 67, 70} {
				var layouts [][3]int // levels, innermost first: b x l[0], a x l[1], b x l[2]
				for _, k := range []int{1, 2, 3, 5, d / 2, d - 2, d - 1} {
					layouts = append(layouts, [3]int{d - k, k, 0}) // a-run outermost
				}
				for _, j := range []int{1, 30} {
					for _, k := range []int{2, 3} {
						layouts = append(layouts, [3]int{d - j - k, k, j}) // a-run in the middle
					}
				}
				for _, l := range layouts {
					if !c.Mine() {
						continue
					}
					v := gen.Small(ref.BYTE, 0)
					for i := 0; i < l[0]; i++ {
						v = wrap(b, v)
					}
					for i := 0; i < l[1]; i++ {
						v = wrap(a, v)
					}
					for i := 0; i < l[2]; i++ {
						v = wrap(b, v)
					}
					enc := ref.Encode(nil, &v)
					r := ref.Skip(enc, v.T)
					if !r.OK || r.MaxDepth != d {
						panic("block chain generator/reference disagreement")
					}
					c.Distinct("blockchain", a, b, d, l)
					for _, sk := range allSkippers {
						skipCompare(c, "C08", enc, v.T, sk, full, fmt.Sprintf("chain of depth %d: %d x %s inside %d x %s inside %d x %s", d, l[0], b, l[1], a, l[2], b), &r)
					}
				}
			}
		}
	}
	// very deep values: must be rejected by the limit, not by exhausting the stack
	for _, d := range []int{100, 1000, 5000} {
		if !c.Mine() {
			continue
		}
		for _, kind := range []string{"list", "struct", "mapval"} {
			v := gen.Chain(kind, d, ref.BYTE)
			enc := ref.Encode(nil, &v)
			r := ref.SkipResult{OK: true, N: len(enc), MaxDepth: d}
			for _, sk := range allSkippers {
				skipCompare(c, "C08", enc, v.T, sk, full, fmt.Sprintf("%s chain of depth %d", kind, d), &r)
			}
		}
	}
	c.Done("nesting chains of depth 1..70 for list/set/map-key/map-value/struct x BYTE and STRING leaves, mixed-kind chains 60..90 (rotating kinds) and block-wise mixed chains (a run of one kind inside/outside/between runs of another, all ordered pairs of kinds, depths 63..70), depth 100/1000/5000")
}

func init() {
	Register(&Check{
		ID: "C08", Level: "exploration",
		Rule: "all strings over the grammar alphabet {00,01,02,03,08,0b,0c,0d,0f,7f,80,ff} up to length L x 18 requested type bytes; every strict prefix and every single structural perturbation of every generated value tree; nesting chains 1..70 (+mixed, +very deep) — each on all five skipping facilities (11 skipper/reader combinations) against an independent recursive-descent grammar; distinct_nontrivial counts distinct inputs the reference REJECTS plus chain cases",
		Assumptions: []string{
			"nesting level 64 is not compared (the statement's boundary zone)",
			"a stream skipper that asks the allocator for more than 2 MiB for an input < 64 KiB counts as a rejection (it can only end in an error once the source is exhausted); counted under alloc-cap-outcomes",
		},
		Run: c08Run,
		Replay: func(c *mc.Ctx, sub string, raw json.RawMessage) {
			if sub == "history" {
				replayAs(raw, func(k c02Hist) { c02HistOne(c, k) })
				return
			}
			replayAs(raw, func(k c08Case) {
				b, _ := hex.DecodeString(k.InputHex)
				setAllocCap(2 << 20)
				skipCompare(c, "C08", b, k.Type, k.Skipper, k.Env, k.Desc, nil)
			})
		},
	})
}
