package checks

import (
	"encoding/json"
	"time"

	"verif/mc"
)

// C09 — zero-copy slices stay valid until Release/Flush; caller memory is never touched.
// Same real objects and explicit-state search as C04/C05, with (a) every slice handed out since the
// last Release retained and re-compared after every operation, (b) writer regions filled lazily and
// checked for disjointness, (c) an adversarial co-tenant of the shared pool that runs between any
// two operations, and (d) the allocator shim's ownership audit (foreign free, double free,
// write-after-free, writes into another tenant's buffer).

type c09Case struct {
	Reader *c04Case `json:"reader,omitempty"`
	Writer *c05Case `json:"writer,omitempty"`
}

func c09Run(c *mc.Ctx) {
	th := c.Thorough()
	c09SkipDecoders(c)
	rsizes, wsizes, depth := []int{1, 100, 4097, 8193}, []int{1, 4095, 4097, 8193}, 4
	dlens := []int{150, 8200, 20000}
	chunks := []int{0, 1, 4097}
	if th {
		// one level deeper with the quick alphabets, more stream lengths and chunk policies
		depth = 5
		dlens = []int{150, 4097, 8200, 20000, 40000}
		chunks = []int{0, 1, 7, 4096, 4097}
	}
	c.Sample("reader-history", map[string]interface{}{"retain": true, "co_tenant": "keeps what it takes", "ops": []string{"peek(100)", "next(4097)", "next(8193)", "Release()"}})
	c.Sample("writer-history", map[string]interface{}{"late_fill": "reverse", "co_tenant": "frees again", "ops": []string{"malloclate(4095)", "malloclate(4097)", "writebinary(8193)", "Flush()"}})
	for _, cot := range []int{1, 2} {
		for _, dl := range dlens {
			for _, ch := range chunks {
				for _, wl := range []bool{false, true} {
					if !c.Mine() {
						continue
					}
					readerBFS(c, "C09", ReaderCfg{Kind: "default", DLen: dl, Env: EnvCfg{Chunk: ch, ErrWithLast: wl}, Sizes: rsizes, Retain: true, CoTenant: cot, NoNeg: true}, depth, 0)
				}
			}
		}
		for _, sh := range []bytesShape{{0, 8}, {0, 4096}, {1, 0}, {8, 0}, {5, 3}, {10, 0}, {100, 28}, {4096, 0}, {4000, 96}, {4097, 4095}, {5000, 0}, {8192, 0}, {8000, 192}, {8193, 8191}} {
			if !c.Mine() {
				continue
			}
			readerBFS(c, "C09", ReaderCfg{Kind: "bytes", DLen: sh.l, SpareCap: sh.spare, Sizes: rsizes, Retain: true, CoTenant: cot, NoNeg: true}, depth, 0)
		}
		// slices and regions beyond 1 MiB / 2 MiB retained across further growth
		if c.Mine() {
			readerBFS(c, "C09", ReaderCfg{Kind: "default", DLen: 3<<20 + 11, Env: EnvCfg{Chunk: 1<<20 + 7}, Sizes: []int{5, 1<<20 + 1, 1 << 21}, Retain: true, CoTenant: cot, NoNeg: true}, 3, 0)
		}
		if c.Mine() {
			// a 128 KiB caller buffer (power of two) of which only a little is left unread at Release
			readerBFS(c, "C09", ReaderCfg{Kind: "bytes", DLen: 1 << 17, SpareCap: 0, Sizes: []int{100, 1<<17 - 4096, 1<<17 - 100, 4096}, Retain: true, CoTenant: cot, NoNeg: true}, 3, 0)
		}
		if c.Mine() {
			readerBFS(c, "C09", ReaderCfg{Kind: "default", DLen: 1<<17 + 50, Env: EnvCfg{Chunk: 1 << 16}, Sizes: []int{100, 1<<17 - 4096, 1<<17 - 100, 4096}, Retain: true, CoTenant: cot, NoNeg: true}, 3, 0)
		}
		if c.Mine() {
			readerBFS(c, "C09", ReaderCfg{Kind: "bytes", DLen: 1 << 21, SpareCap: 0, Sizes: []int{5, 1<<20 + 1, 1 << 21}, Retain: true, CoTenant: cot, NoNeg: true}, 3, 0)
		}
		if c.Mine() {
			writerBFS(c, "C09", WriterCfg{Kind: "default", Sizes: []int{5, 1<<20 + 1, 1 << 21}, Reverse: cot == 1, CoTenant: cot, PayPow2: true}, 3)
		}
		if c.Mine() {
			writerBFS(c, "C09", WriterCfg{Kind: "default", RichSink: true, SinkFlushFails: true, Sizes: wsizes, Reverse: cot == 2, CoTenant: cot, PayPow2: true}, depth)
		}
		for _, rev := range []bool{false, true} {
			for _, k := range []int{0, 1, 2} {
				if !c.Mine() {
					continue
				}
				writerBFS(c, "C09", WriterCfg{Kind: "default", FailAt: k, Sizes: wsizes, Reverse: rev, CoTenant: cot, PayPow2: true}, depth)
			}
			for _, sh := range []initShape{{0, -1}, {0, 8}, {3, 8}, {8, 8}, {10, 10}, {4096, 4096}, {100, 4096}, {5000, 5000}, {8192, 8192}} {
				if !c.Mine() {
					continue
				}
				writerBFS(c, "C09", WriterCfg{Kind: "bytes", InitLen: sh.l, InitCap: sh.c, Sizes: wsizes, Reverse: rev, CoTenant: cot, PayPow2: true}, depth)
			}
		}
	}
}

// c09SkipDecoders: decoder results backed by the buffered reader (valid until Release) and by the
// io.Reader decoder's scratch buffer (valid until the next Next), with the co-tenant between operations.
func c09SkipDecoders(c *mc.Ctx) {
	nv := c02HistN
	seqs := append([][]int{}, c02HugeSeqs...)
	for a := 0; a < nv; a++ {
		seqs = append(seqs, []int{a})
		for b := 0; b < nv; b++ {
			seqs = append(seqs, []int{a, b})
			for d := 0; d < nv; d++ {
				seqs = append(seqs, []int{a, b, d})
			}
		}
	}
	envs := []EnvCfg{{}, {Chunk: 4097}, {Chunk: 100, ErrWithLast: true}}
	var n int64
	for _, dec := range []string{skDecStream, skDecBytesR, skReaderSkip} {
		for _, seq := range seqs {
			for _, cot := range []int{1, 2} {
				es := envs
				if dec == skDecBytesR {
					es = envs[:1]
				}
				for _, env := range es {
					if !c.Mine() {
						continue
					}
					if c.Expired() {
						c.Incomplete("skip-decoder histories: deadline")
						return
					}
					n++
					c02HistOne(c, c02Hist{Decoder: dec, Seq: seq, Env: env, CoTenant: cot, Prop: "C09"})
				}
			}
		}
	}
	c.R.Transitions += n * 3
	c.R.Traces += n * 3
	c.R.States += n
	c.R.Distinct += n
	c.Done("skip-decoder results: all sequences of <= 3 Next calls over 6 values of different size classes (+ 7 sequences around a value > 1 MiB) x {SkipDecoder over stream/bytes reader, ReaderSkipDecoder} x fragmentation x co-tenant mode, twice (pool reuse); results retained until Release / the next Next")
}

func init() {
	Register(&Check{
		ID: "C09", Level: "model_checking", Thorough: 45 * time.Minute,
		Rule: "explicit-state BFS over reader histories (Next/Peek/Skip/ReadBinary/Release forcing 0..2 growths) with every returned slice retained until Release, and writer histories (Malloc filled late in forward/reverse order, WriteBinary from power-of-two payload buffers, Flush, failing sink) with every region retained until Flush; a co-tenant drains and scribbles every free pool buffer between any two operations (keeping or re-freeing them); states = object private state + retained-slice set + pool free lists; oracle = retained contents, region disjointness, caller-memory snapshots, pool ownership audit",
		Assumptions: []string{
			"the shared pool is the deterministic auditing shim with the size rules of mcache (Free ignores non-power-of-two capacities, LIFO reuse per class)",
			"the co-tenant always runs between operations (worst case), it is not a choice point",
		},
		Run: c09Run,
		Replay: func(c *mc.Ctx, sub string, raw json.RawMessage) {
			// reader and writer cases share the replayers of C04/C05; the case shape tells them apart
			var probe struct {
				Cfg struct {
					Sizes   []int `json:"sizes"`
					DLen    *int  `json:"dlen"`
					InitCap *int  `json:"init_cap"`
				} `json:"cfg"`
			}
			json.Unmarshal(raw, &probe)
			if sub == "history" {
				replayAs(raw, func(k c02Hist) { c02HistOne(c, k) })
				return
			}
			if probe.Cfg.InitCap != nil {
				replayAs(raw, func(k c05Case) { c05Replay(c, "C09", sub, k) })
			} else {
				replayAs(raw, func(k c04Case) { c04Replay(c, "C09", sub, k) })
			}
		},
	})
}
