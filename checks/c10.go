package checks

import (
	"bytes"
	"context"
	"encoding/hex"
	"encoding/json"
	"fmt"

	"github.com/bytedance/gopkg/lang/mcache"
	"github.com/cloudwego/gopkg/bufiox"
	"github.com/cloudwego/gopkg/protocol/ttheader"

	"verif/gen"
	"verif/mc"
	"verif/ref"
)

// C10 — TTHeader decode validates hostile frames and keeps the framing arithmetic.

type c10Case struct {
	Hex    string  `json:"frame_hex,omitempty"`
	Gen    string  `json:"generator,omitempty"` // for frames too long to store: how to rebuild them
	Args   []int64 `json:"args,omitempty"`
	Stream bool    `json:"stream,omitempty"`
	Env    EnvCfg  `json:"env"`
	Desc   string  `json:"desc"`
	Pre    int     `json:"preface,omitempty"` // bytes consumed from the same reader (and not released) before Decode
	EnvChoices
}

func mapsEqStr(a, b map[string]string) bool {
	if len(a) != len(b) {
		return false
	}
	for k, v := range a {
		if w, ok := b[k]; !ok || w != v {
			return false
		}
	}
	return true
}

func mapsEqInt(a, b map[uint16]string) bool {
	if len(a) != len(b) {
		return false
	}
	for k, v := range a {
		if w, ok := b[k]; !ok || w != v {
			return false
		}
	}
	return true
}

// c10One decodes one frame (bytes-backed, or stream-backed under env) and compares with the reference decoder.
func c10One(c *mc.Ctx, frame []byte, k c10Case) {
	c.Eval(1)
	want, wok, why := ref.TTHDecode(frame, ttheader.GDPRToken)
	bad := func(class, format string, a ...interface{}) {
		k.EnvChoices = currentEnvChoices()
		if len(frame) <= 400 {
			k.Hex = hex.EncodeToString(frame)
		}
		c.Violate("decode", "C10|"+class, fmt.Sprintf("frame %s (%s) [stream=%v %s]: ", mc.Hex(frame), k.Desc, k.Stream, k.Env)+fmt.Sprintf(format, a...), k)
	}
	declared := -1
	if len(frame) >= 14 {
		declared = 14 + 4*(int(frame[12])<<8|int(frame[13]))
	}
	var got ttheader.DecodeParam
	var err error
	readLen := -1
	mcache.VerifReset()
	pi := mc.Try(func() {
		var r bufiox.Reader
		src := frame
		if k.Pre > 0 {
			src = append(bytes.Repeat([]byte{0x5a}, k.Pre), frame...)
		} else if k.Stream {
			src = append([]byte{}, frame...)
		}
		if k.Stream {
			if declared >= 0 && declared <= len(frame) {
				src = append(src, 0x5a, 0x5b, 0x5c, 0x5d, 0x5e, 0x5f) // the header is complete: the first bytes of what follows are already on the wire
			}
			r = bufiox.NewDefaultReader(NewEnvReader(src, k.Env).Src())
		} else {
			// the caller's receive buffer has a power-of-two capacity: a wrongful recycle of it shows in the pool audit
			pc := 16
			for pc < len(src) {
				pc <<= 1
			}
			src = append(make([]byte, 0, pc), src...)
			r = bufiox.NewBytesReader(src)
		}
		if k.Pre > 0 {
			r.Next(k.Pre) // a preface / an earlier message on the same connection, not yet released
		}
		got, err = ttheader.Decode(context.Background(), r)
		readLen = r.ReadLen() - k.Pre
		r.Release(nil)
		r.Release(nil) // releasing twice in a row (error path + deferred cleanup) is harmless
		if a := mcache.VerifTakeAudit(); len(a) > 0 {
			bad("pool-audit:"+auditClass(a[0]), "after Decode and Release on this frame the buffer pool reports: %v", a)
		}
		// the reader's buffers are recycled and the input reused: decoded maps must not change
		if k.Stream || k.Pre > 0 {
			mcache.VerifCoTenant(true)
		}
		for i := range src {
			src[i] = 0xEE
		}
		if !k.Stream {
			g2, e2 := ttheader.DecodeFromBytes(context.Background(), frame)
			if (e2 == nil) != (err == nil) || (err == nil && (g2.HeaderLen != got.HeaderLen || g2.PayloadLen != got.PayloadLen || g2.Flags != got.Flags || g2.SeqID != got.SeqID || !mapsEqStr(g2.StrInfo, got.StrInfo) || !mapsEqInt(g2.IntInfo, got.IntInfo))) {
				bad("frombytes-differs", "DecodeFromBytes and Decode over a bytes reader disagree: %v / %v", e2, err)
			}
		}
	})
	if pi != nil {
		if pi.IsAllocCap() {
			bad("alloc", "allocation above the cap")
		} else {
			bad("panic:"+pi.Frame+":"+pi.Class, "panic: %s at %s", pi.Msg, pi.Frame)
		}
		return
	}
	lim := len(frame)
	if declared >= 0 && declared < lim {
		lim = declared
	}
	if readLen > lim {
		bad("over-consumed", "consumed %d bytes; at most min(input %d, 14 + declared size = %d) may be consumed", readLen, len(frame), declared)
		return
	}
	if !wok {
		if err == nil {
			bad("accepted-invalid:"+why, "accepted (HeaderLen %d) a frame that must be rejected: %s", got.HeaderLen, why)
		}
		return
	}
	if err != nil {
		bad("rejected-valid", "rejected a valid frame (declared header size %d): %v", declared-14, err)
		return
	}
	if got.HeaderLen != want.HeaderLen {
		bad("header-len", "HeaderLen %d, want 14 + declared size = %d", got.HeaderLen, want.HeaderLen)
		return
	}
	if got.PayloadLen != want.PayloadLen {
		bad("payload-len", "PayloadLen %d, want total length + 4 - header length = %d", got.PayloadLen, want.PayloadLen)
		return
	}
	if readLen != want.HeaderLen {
		bad("read-len", "consumed %d bytes, the header is %d bytes long", readLen, want.HeaderLen)
		return
	}
	if uint16(got.Flags) != want.Flags || got.SeqID != want.Seq || uint8(got.ProtocolID) != want.Protocol {
		bad("fields", "flags/seq/protocol %#x/%d/%d, want %#x/%d/%d", got.Flags, got.SeqID, got.ProtocolID, want.Flags, want.Seq, want.Protocol)
		return
	}
	if !mapsEqStr(got.StrInfo, want.StrInfo) || !mapsEqInt(got.IntInfo, want.IntInfo) {
		bad("maps", "decoded maps %v %v, the info sections encode %v %v", got.StrInfo, got.IntInfo, want.StrInfo, want.IntInfo)
	}
}

// frame with an explicit size field over `avail` bytes of header info (protocol 0, no transforms, zero padding)
func c10SizeFrame(sizeField, avail int) []byte {
	b := make([]byte, 14+avail)
	b[3] = 100
	b[4], b[5] = 0x10, 0x00
	b[12], b[13] = byte(sizeField>>8), byte(sizeField)
	return b
}

func c10Build(gen string, a []int64) []byte {
	switch gen {
	case "size":
		return c10SizeFrame(int(a[0]), int(a[1]))
	}
	panic("c10: unknown generator " + gen)
}

func c10Run(c *mc.Ctx) {
	th := c.Thorough()
	setAllocCap(64 << 20)
	lo, hi := c.Span(65536)
	// (a) all 65536 size-field values x available header-info lengths
	for sf := lo; sf < hi; sf++ {
		d := int(sf) * 4
		for _, av := range []int{0, 2, d - 1, d, d + 1, 65536, 65540} {
			if av < 0 {
				continue
			}
			if (av > 70000 || d > 70000) && av != d && av != d-1 && av != d+1 && !(sf%64 == 0) {
				continue
			}
			c10One(c, c10SizeFrame(int(sf), av), c10Case{Gen: "size", Args: []int64{sf, int64(av)}, Desc: fmt.Sprintf("size field %d, %d bytes of header info available", sf, av)})
			if av == d && (sf == 1 || sf%1021 == 0 || sf == 1024 || sf == 2048 || sf == 16384) {
				// complete headers of every size class also arrive over a stream (the reader's buffer grows and retires
				// buffers), with the first bytes of the next message already buffered, and are released twice
				for _, env := range []EnvCfg{{}, {Chunk: 4097, ErrWithLast: true}, {Chunk: 1000, Len: true}} {
					c10One(c, c10SizeFrame(int(sf), av), c10Case{Gen: "size", Args: []int64{sf, int64(av)}, Stream: true, Env: env, Desc: fmt.Sprintf("size field %d, complete, streamed", sf)})
				}
			}
		}
	}
	c.DistinctN(hi - lo)
	c.Done("all 65536 values of the header-size field x available lengths {0,2,declared-1,declared,declared+1,65536,65540}")
	// (b) all flag words, (c) all upper halves of the magic word
	base := ref.TTHBuildRaw(0, 7, 0, nil, []ref.TTHSection{{Kind: 0x01, Str: [][2]string{{"k", "v"}}}}, 50, -1)
	fr := append([]byte{}, base...)
	for w := lo; w < hi; w++ {
		copy(fr, base)
		fr[6], fr[7] = byte(w>>8), byte(w)
		c10One(c, fr, c10Case{Desc: "flags sweep"})
		copy(fr, base)
		fr[4], fr[5] = byte(w>>8), byte(w)
		c10One(c, fr, c10Case{Desc: "magic sweep"})
	}
	c.DistinctN(2 * (hi - lo))
	c.Done("all 65536 flag words; all 65536 values of the magic half-word")
	// (d) protocol ids x transform counts x remaining length
	for p := 0; p < 256; p++ {
		if !c.Mine() {
			continue
		}
		for tc := 0; tc < 256; tc++ {
			for _, rem := range []int{0, 1, tc, tc + 2} {
				n := 2 + rem
				for n%4 != 0 {
					n++
				}
				b := c10SizeFrame(n/4, n)
				b[14], b[15] = byte(p), byte(tc)
				c10One(c, b, c10Case{Desc: fmt.Sprintf("protocol %d, %d transforms, %d bytes after the count", p, tc, n-2)})
				// and with the remaining bytes being exactly rem (unpadded size is not expressible; use rem rounded to the size field) plus garbage transform ids
				for i := 16; i < len(b); i++ {
					b[i] = 0x01
				}
				c10One(c, b, c10Case{Desc: fmt.Sprintf("protocol %d, %d transforms, %d bytes 0x01 after the count", p, tc, n-2)})
			}
		}
	}
	c.Done("all 256 protocol ids x all 256 transform counts x remaining lengths {0,1,count,count+2}")
	// (e) all 256 info-id bytes at a section start x following-bytes alphabet
	follow := [][]byte{nil, {0}, {0, 0}, {0, 1, 0, 1, 'k', 0, 1, 'v'}, {0, 1, 0, 1}, {0xff, 0xff}, {0, 5, 'a', 'b'}, {0, 1, 0, 7, 0, 1, 'x'}}
	for id := 0; id < 256; id++ {
		if !c.Mine() {
			continue
		}
		for _, f := range follow {
			info := append([]byte{0, 0, byte(id)}, f...)
			for len(info)%4 != 0 {
				info = append(info, 0)
			}
			b := c10SizeFrame(len(info)/4, len(info))
			copy(b[14:], info)
			c10One(c, b, c10Case{Desc: fmt.Sprintf("info id %#x followed by %x", id, f)})
		}
	}
	c.Done("all 256 info-id bytes at a section start x 8 continuations")
	// (f) all header-info regions over small alphabets, wrapped in a correct meta block
	region := func(alpha []byte, n int, label string) bool {
		total := int64(1)
		for i := 0; i < n; i++ {
			total *= int64(len(alpha))
		}
		rlo, rhi := c.Span(total)
		buf := make([]byte, 0, 16)
		pad := (4 - (2+n)%4) % 4
		b := c10SizeFrame((2+n+pad)/4, 2+n+pad)
		for k := rlo; k < rhi; k++ {
			if k%8192 == 0 && c.Expired() {
				c.Incomplete(label + ": deadline")
				return false
			}
			s := gen.NthString(alpha, n, k, buf[:0])
			copy(b[16:], s)
			c10One(c, b, c10Case{Desc: label})
		}
		c.DistinctN(rhi - rlo)
		c.Done(label)
		return true
	}
	ah := []byte{0x00, 0x01, 0x02, 0x03, 0x10, 0x11, 0x61, 0xff}
	if !region(ah, 2, "all header-info regions of length 2 over {00,01,02,03,10,11,61,ff}") ||
		!region(ah, 6, "all header-info regions of length 6 over {00,01,02,03,10,11,61,ff}") ||
		!region([]byte{0x00, 0x01, 0x10, 0x11}, 10, "all header-info regions of length 10 over {00,01,10,11}") {
		return
	}
	if th {
		if !region(ah, 7, "all header-info regions of length 7 over {00,01,02,03,10,11,61,ff}") ||
			!region([]byte{0x00, 0x01, 0x02, 0x10, 0x11}, 10, "all header-info regions of length 10 over {00,01,02,10,11}") {
			return
		}
	}
	// (g) all sequences of <= 3 sections (orders, repeats, interleaved padding, repeated keys) — bytes and stream readers
	secs := []ref.TTHSection{
		{Kind: 0x01, Str: [][2]string{{"k", "v1"}, {"", ""}}},
		{Kind: 0x01, Str: [][2]string{{"k", "v2"}, {ttheader.GDPRToken, "as-ordinary-key"}}},
		{Kind: 0x01},
		{Kind: 0x10, Int: []ref.TTHIntKV{{K: 1, V: "a"}, {K: 0xffff, V: ""}}},
		{Kind: 0x10, Int: []ref.TTHIntKV{{K: 1, V: "b"}}},
		{Kind: 0x10, Int: []ref.TTHIntKV{{K: 27, V: "1"}, {K: 26, V: "4"}, {K: 28, V: "2"}, {K: 0, V: "3"}}}, // well-known int keys (frame type ...) with their usual one-character values
		{Kind: 0x01, Str: [][2]string{{ttheader.HeaderTransPerfTRecvEnd, "e"}, {ttheader.HeaderTransPerfTRecvStart, "s"}, {ttheader.HeaderIDLServiceName, "svc"}, {ttheader.HeaderTransRemoteAddr, "1.2.3.4"}, {ttheader.HeaderTransToCluster, "c"}, {ttheader.HeaderTransToIDC, "i"}, {ttheader.HeaderTransPerfTConnStart, "1"}, {ttheader.HeaderTransPerfTConnEnd, "2"}, {ttheader.HeaderTransPerfTSendStart, "3"}, {ttheader.HeaderConnectionReadyToReset, "4"}, {ttheader.HeaderProcessAtTime, "5"}}},
		{Kind: 0x11, ACL: "tok1"},
		{Kind: 0x11, ACL: ""},
		{Kind: 0x00},
	}
	senvs := []EnvCfg{{}, {Chunk: 1}, {Chunk: 7, ErrWithLast: true}, {Chunk: 4097, ZeroReads: 1}}
	if th {
		senvs = c02Envs(true)
	}
	ns := len(secs)
	for a := -1; a < ns; a++ {
		for b := -1; b < ns; b++ {
			for d := -1; d < ns; d++ {
				if (a < 0 && (b >= 0 || d >= 0)) || (b < 0 && d >= 0) {
					continue
				}
				if !c.Mine() {
					continue
				}
				var ss []ref.TTHSection
				for _, i := range []int{a, b, d} {
					if i >= 0 {
						ss = append(ss, secs[i])
					}
				}
				for _, total := range []uint32{0, 13, 100, 0x3fffffff, 0x40000000, 0x7fffffff, 0x80000000, 0xfffffffb, 0xffffffff} {
					f := ref.TTHBuildRaw(0x0102, -2, 4, nil, ss, total, -1)
					f = append(f, 0xAB, 0xCD) // payload bytes follow the header
					c.Distinct(f)
					c10One(c, f, c10Case{Desc: fmt.Sprintf("sections %d,%d,%d total=%#x", a, b, d, total)})
					if total == 100 {
						for _, env := range senvs {
							c10One(c, f, c10Case{Stream: true, Env: env, Desc: fmt.Sprintf("sections %d,%d,%d", a, b, d)})
						}
						c10One(c, f, c10Case{Pre: 7, Desc: fmt.Sprintf("sections %d,%d,%d after a 7-byte preface", a, b, d)})
						c10One(c, f, c10Case{Stream: true, Pre: 43, Env: senvs[len(senvs)-1], Desc: fmt.Sprintf("sections %d,%d,%d after a 43-byte preface", a, b, d)})
						if d < 0 { // per-Read deviations (<= 1, thorough 2) on frames with up to two sections
							bd := 1
							if th {
								bd = 2
							}
							n, _ := exploreEnv(c, bd, func() {
								c10One(c, f, c10Case{Stream: true, Env: EnvCfg{Chunk: 5, AfterErr: 1}, Desc: fmt.Sprintf("sections %d,%d with read deviations", a, b)})
							})
							c.Count("deviation-executions", n)
						}
						// (h) every truncation and structural perturbation of this valid frame
						for cut := 0; cut < len(f); cut++ {
							c10One(c, f[:cut], c10Case{Desc: "truncated frame"})
							if cut%3 == 0 {
								c10One(c, f[:cut], c10Case{Stream: true, Env: senvs[1], Desc: "truncated frame"})
							}
						}
						g := make([]byte, len(f))
						for pos := 12; pos < len(f)-2; pos++ {
							for _, x := range []byte{0x00, 0x01, 0x02, 0x10, 0x11, 0x7f, 0x80, 0xff, f[pos] - 1, f[pos] + 1} {
								if x == f[pos] {
									continue
								}
								copy(g, f)
								g[pos] = x
								c10One(c, g, c10Case{Desc: fmt.Sprintf("byte %d of a valid frame set to %#x", pos, x)})
							}
						}
					}
				}
			}
		}
	}
	// transforms present
	for _, tr := range [][]byte{{1}, {1, 2, 3}, make([]byte, 255)} {
		f := ref.TTHBuildRaw(0, 1, 0x10, tr, secs[:1], 60, -1)
		c10One(c, f, c10Case{Desc: fmt.Sprintf("%d transform ids", len(tr))})
	}
	c.Sample("sections", c10Case{Hex: hex.EncodeToString(ref.TTHBuildRaw(0x0102, -2, 4, nil, []ref.TTHSection{secs[5], secs[7], secs[0]}, 100, -1)), Desc: "acl, padding byte, string KV"})
	c.Done("all sequences of <= 3 sections over 10 section variants (incl. every well-known transport key) x 9 total-length values, bytes- and stream-backed, with every truncation and byte perturbation of each valid frame")
}

func init() {
	Register(&Check{
		ID: "C10", Level: "exploration",
		Rule:        "whole domains: all 65536 size-field values x 7 available lengths, all 65536 flag words, all 65536 magic half-words, all 256 protocol ids x 256 transform counts, all 256 info ids; all header-info regions over small alphabets (8^2, 8^6, 4^10; thorough 8^7, 5^10); all sequences of <= 3 sections (orders, repeats, padding, repeated keys, ACL key as an ordinary key) x total-length values, with every truncation and byte perturbation, bytes- and stream-backed under fragmentation; oracle = independent 32-bit reference decoder; distinct = distinct frames",
		Assumptions: []string{"supported protocol ids are those the decoder documents: 0x00, 0x03, 0x04, 0x10, 0x11", "maps are compared modulo nil/empty; on repeated keys the last occurrence wins"},
		Run:         c10Run,
		Replay: func(c *mc.Ctx, sub string, raw json.RawMessage) {
			replayAs(raw, func(k c10Case) {
				setAllocCap(64 << 20)
				var f []byte
				if k.Hex != "" {
					f, _ = hex.DecodeString(k.Hex)
				} else {
					f = c10Build(k.Gen, k.Args)
				}
				withEnvChoices(k.EnvChoices, func() { c10One(c, f, k) })
			})
		},
	})
}
