package checks

import (
	"bytes"
	"encoding/hex"
	"encoding/json"
	"errors"
	"fmt"
	"reflect"
	"strings"

	"github.com/cloudwego/gopkg/protocol/thrift"
	"github.com/cloudwego/gopkg/protocol/thrift/base"

	"verif/gen"
	"verif/mc"
	"verif/ref"
)

// C11 — shipped FastCodec structs: exact length, round trip, unknown fields skipped.

type c11Val struct {
	Kind   string            `json:"kind"` // base | baseresp | exception
	Nil    bool              `json:"nil_receiver,omitempty"`
	S      [3]string         `json:"s"` // LogID/Caller/Addr | StatusMessage | message
	I      int32             `json:"i"` // StatusCode | type id
	Extra  map[string]string `json:"extra,omitempty"`
	HasMap bool              `json:"has_map"`                                    // distinguishes nil from empty
	Big    int               `json:"big_map_entries,omitempty"`                  // a generated map of this many entries (keys k<i>, values v<i>)
	Acc    bool              `json:"built_and_read_through_accessors,omitempty"` // New*() + InitDefault + Set*; every Get*/IsSet*/String called before encoding
}

type c11Read struct {
	Kind     string `json:"kind"`
	InputHex string `json:"input_hex"`
	StructN  int    `json:"struct_len"` // length of the struct encoding (without trailing bytes)
	Want     c11Val `json:"want"`
	Desc     string `json:"desc"`
	Reuse    bool   `json:"decode_into_used_struct,omitempty"`
	Same     bool   `json:"decode_into_a_value_already_holding_this_message,omitempty"` // decoded from another copy of the input / built by the constructor
	Span     bool   `json:"span_cache,omitempty"`
	Stack    bool   `json:"also_from_a_stack_held_copy,omitempty"`
}

// a previous message with all fields set and a two-entry map (decoded first when Reuse is set)
var c11PrevBase = func() []byte {
	m := strMapV("old1", "x", "old2", "y")
	v := baseStruct("oldlog", "oldcaller", "oldaddr", &m)
	return ref.Encode(nil, &v)
}()
var c11PrevResp = func() []byte {
	m := strMapV("old1", "x", "old2", "y")
	v := baseRespStruct("oldmsg", 99, &m)
	return ref.Encode(nil, &v)
}()

func (v c11Val) extra() map[string]string {
	if !v.HasMap {
		return nil
	}
	if v.Big > 0 {
		m := make(map[string]string, v.Big)
		for i := 0; i < v.Big; i++ {
			m[fmt.Sprintf("k%d", i)] = fmt.Sprintf("v%d", i%7)
		}
		return m
	}
	if v.Extra == nil {
		return map[string]string{}
	}
	return v.Extra
}

func c11Codec(v c11Val) thrift.FastCodec {
	if v.Acc && !v.Nil {
		if m := c11ViaAccessors(v); m != nil {
			return m
		}
	}
	switch v.Kind {
	case "base":
		if v.Nil {
			return (*base.Base)(nil)
		}
		return &base.Base{LogID: v.S[0], Caller: v.S[1], Addr: v.S[2], Extra: v.extra()}
	case "baseresp":
		if v.Nil {
			return (*base.BaseResp)(nil)
		}
		return &base.BaseResp{StatusMessage: v.S[0], StatusCode: v.I, Extra: v.extra()}
	}
	switch v.Kind {
	case "protocol-exception":
		return thrift.NewProtocolException(v.I, v.S[0])
	case "transport-exception":
		return thrift.NewTransportException(v.I, v.S[0])
	case "protocol-exception-with-cause": // what the stream reader returns for a failing source; type id 0 (unknown)
		return thrift.NewProtocolExceptionWithErr(errors.New(v.S[0]))
	}
	return thrift.NewApplicationException(v.I, v.S[0])
}

// c11ViaAccessors builds the value through the constructor, InitDefault and the setters (the optional map is set only
// when present) and then calls every getter: getters are reads, so what is encoded afterwards must still be exactly the
// value that was set (in particular an absent optional map stays absent).  A getter returning something else than what
// was set panics with a description (reported as a violation by the caller's panic guard).
func c11ViaAccessors(v c11Val) thrift.FastCodec {
	sameMap := func(got, want map[string]string) bool {
		if len(got) != len(want) {
			return false
		}
		for k, x := range want {
			if y, ok := got[k]; !ok || y != x {
				return false
			}
		}
		return true
	}
	switch v.Kind {
	case "base":
		p := base.NewBase()
		p.InitDefault()
		p.SetLogID(v.S[0])
		p.SetCaller(v.S[1])
		p.SetAddr(v.S[2])
		if v.HasMap {
			p.SetExtra(v.extra())
		}
		_ = p.String()
		if p.GetLogID() != v.S[0] || p.GetCaller() != v.S[1] || p.GetAddr() != v.S[2] || p.IsSetExtra() != v.HasMap || !sameMap(p.GetExtra(), v.extra()) {
			panic(fmt.Sprintf("accessors of Base do not return what was set: %q %q %q set=%v %d entries", p.GetLogID(), p.GetCaller(), p.GetAddr(), p.IsSetExtra(), len(p.GetExtra())))
		}
		_ = p.String()
		return p
	case "baseresp":
		p := base.NewBaseResp()
		p.InitDefault()
		p.SetStatusMessage(v.S[0])
		p.SetStatusCode(v.I)
		if v.HasMap {
			p.SetExtra(v.extra())
		}
		_ = p.String()
		if p.GetStatusMessage() != v.S[0] || p.GetStatusCode() != v.I || p.IsSetExtra() != v.HasMap || !sameMap(p.GetExtra(), v.extra()) {
			panic(fmt.Sprintf("accessors of BaseResp do not return what was set: %q %d set=%v %d entries", p.GetStatusMessage(), p.GetStatusCode(), p.IsSetExtra(), len(p.GetExtra())))
		}
		_ = p.String()
		return p
	}
	return nil
}

// c11WantFields: the fields the encoding must hold, by id.
func c11WantFields(v c11Val) map[int16]ref.Value {
	m := map[int16]ref.Value{}
	if v.Nil {
		return m
	}
	mapV := func() ref.Value {
		x := ref.Value{T: ref.MAP, Key: ref.STRING, Elem: ref.STRING, L: []ref.Value{}}
		for k, val := range v.extra() {
			x.L = append(x.L, strV(k), strV(val))
		}
		return x
	}
	switch v.Kind {
	case "base":
		m[1], m[2], m[3] = strV(v.S[0]), strV(v.S[1]), strV(v.S[2])
		if v.HasMap {
			m[6] = mapV()
		}
	case "baseresp":
		m[1] = strV(v.S[0])
		m[2] = ref.Value{T: ref.I32, I: uint64(uint32(v.I))}
		if v.HasMap {
			m[3] = mapV()
		}
	default:
		m[1] = strV(v.S[0])
		m[2] = ref.Value{T: ref.I32, I: uint64(uint32(v.I))}
	}
	return m
}

func valueEqUnordered(a, b ref.Value) bool {
	if a.T != b.T {
		return false
	}
	if a.T == ref.MAP {
		if a.Key != b.Key || a.Elem != b.Elem || len(a.L) != len(b.L) {
			return false
		}
		am := map[string]string{}
		for i := 0; i+1 < len(a.L); i += 2 {
			am[string(ref.Encode(nil, &a.L[i]))] = string(ref.Encode(nil, &a.L[i+1]))
		}
		for i := 0; i+1 < len(b.L); i += 2 {
			if x, ok := am[string(ref.Encode(nil, &b.L[i]))]; !ok || x != string(ref.Encode(nil, &b.L[i+1])) {
				return false
			}
		}
		return len(am) == len(b.L)/2
	}
	return bytes.Equal(ref.Encode(nil, &a), ref.Encode(nil, &b))
}

func c11Write(c *mc.Ctx, v c11Val) {
	c.Eval(1)
	bad := func(class, format string, a ...interface{}) {
		c.Violate("write", fmt.Sprintf("C11|%s|write|%s", v.Kind, class), fmt.Sprintf("%s %+v: ", v.Kind, v)+fmt.Sprintf(format, a...), v)
	}
	pi := mc.Try(func() {
		m := c11Codec(v)
		bl := m.BLength()
		buf := bytes.Repeat([]byte{0xCC}, bl+16)
		n := m.FastWriteNocopy(buf, nil)
		if n != bl {
			bad("blength", "BLength() = %d but FastWriteNocopy wrote %d bytes", bl, n)
			return
		}
		if !bytes.Equal(buf[n:], bytes.Repeat([]byte{0xCC}, len(buf)-n)) {
			bad("overrun", "FastWriteNocopy wrote past the %d bytes it reported", n)
			return
		}
		if fw, ok := m.(interface{ FastWrite([]byte) int }); ok {
			b2 := make([]byte, bl)
			if n2 := fw.FastWrite(b2); n2 != bl {
				bad("blength", "BLength() = %d but FastWrite wrote %d bytes", bl, n2)
				return
			}
		}
		fm := thrift.FastMarshal(m)
		if len(fm) != bl {
			bad("blength", "FastMarshal produced %d bytes, BLength() = %d", len(fm), bl)
			return
		}
		if e, isErr := m.(error); isErr && !v.Nil {
			// rendering an error is a read-only operation: the encoding afterwards is the same
			_ = e.Error()
			_ = fmt.Sprint(e)
			if ae, ok := m.(*thrift.ApplicationException); ok && (ae.Msg() != v.S[0] || ae.TypeID() != v.I) {
				bad("error-changes-value", "after Error() the exception reports message %q type id %d, it was built with %q %d", ae.Msg(), ae.TypeID(), v.S[0], v.I)
				return
			}
			if bl2 := m.BLength(); bl2 != bl || !bytes.Equal(thrift.FastMarshal(m), buf[:n]) {
				bad("error-changes-value", "after Error() BLength() = %d (before %d) and the encoding is %s (before %s)", bl2, bl, mc.Hex(thrift.FastMarshal(m)), mc.Hex(buf[:n]))
				return
			}
		}
		got, dn, ok := ref.Decode(buf[:n], ref.STRUCT)
		if !ok || dn != n {
			bad("not-wellformed", "the written bytes are not one well-formed struct of %d bytes: %s", n, mc.Hex(buf[:n]))
			return
		}
		want := c11WantFields(v)
		if len(got.F) != len(want) {
			bad("fields", "the encoding holds %d fields, want %d (optional map present iff non-nil)", len(got.F), len(want))
			return
		}
		for _, f := range got.F {
			w, ok := want[f.ID]
			if !ok || !valueEqUnordered(f.V, w) {
				bad("fields", "field %d of the encoding does not hold the struct's value", f.ID)
				return
			}
		}
	})
	if pi != nil {
		bad("panic", "panic: %s at %s", pi.Msg, pi.Frame)
	}
}

func c11ReadOne(c *mc.Ctx, k c11Read, in []byte) {
	if k.StructN == len(in) || k.Span { // inputs without trailing bytes also run with the span-cache allocator switched on
		in2 := append([]byte{}, in...)
		k2 := k
		k2.Span = true
		thrift.SetSpanCache(true)
		c11ReadOneSpan(c, k2, in2)
		thrift.SetSpanCache(false)
		if k.Span {
			return
		}
	}
	c11ReadOneSpan(c, k, in)
}

func c11ReadOneSpan(c *mc.Ctx, k c11Read, in []byte) {
	c.Eval(1)
	if k.Stack && !k.Span && !k.Reuse && len(in) <= 512 {
		// the same bytes held in a local array on a goroutine stack (which moves when it grows) decode the same way
		var diff string
		if pi := mc.Try(func() { diff = fastReadOnStack(k.Kind, in) }); pi != nil {
			diff = "panic: " + pi.Msg + " at " + pi.Frame
		}
		if diff != "" {
			kk := k
			kk.InputHex = hex.EncodeToString(in)
			c.Violate("read", fmt.Sprintf("C11|%s|read|stack-held-input-differs", k.Kind), fmt.Sprintf("%s.FastRead on %s (%s): %s", k.Kind, mc.Hex(in), k.Desc, diff), kk)
			return
		}
	}
	inHex := hex.EncodeToString(in)
	shown := mc.Hex(in)
	bad := func(class, format string, a ...interface{}) {
		k.InputHex = inHex
		c.Violate("read", fmt.Sprintf("C11|%s|read|%s", k.Kind, class), fmt.Sprintf("%s.FastRead on %s (%s; span cache %v): ", k.Kind, shown, k.Desc, k.Span)+fmt.Sprintf(format, a...), k)
	}
	pi := mc.Try(func() {
		var n int
		var err error
		var got c11Val
		got.Kind = k.Kind
		switch k.Kind {
		case "base":
			var x base.Base
			if k.Reuse { // the struct was used for another message before: a map in the new message replaces the old one
				x.FastRead(c11PrevBase)
			}
			if k.Same { // ... or holds the very same message already ("unchanged: keep the old value" shortcuts alias nothing either)
				x.FastRead(append([]byte{}, in...))
			}
			n, err = x.FastRead(in)
			got.S = [3]string{x.LogID, x.Caller, x.Addr}
			got.HasMap, got.Extra = x.Extra != nil, x.Extra
			if x.GetLogID() != x.LogID || x.GetCaller() != x.Caller || x.GetAddr() != x.Addr || x.IsSetExtra() != got.HasMap || len(x.GetExtra()) != len(x.Extra) || (x.Extra != nil) != got.HasMap {
				bad("getters", "after FastRead the getters disagree with the decoded fields (or calling them changed the value)")
				return
			}
		case "baseresp":
			var x base.BaseResp
			if k.Reuse {
				x.FastRead(c11PrevResp)
			}
			if k.Same {
				x.FastRead(append([]byte{}, in...))
			}
			n, err = x.FastRead(in)
			got.S[0], got.I = x.StatusMessage, x.StatusCode
			got.HasMap, got.Extra = x.Extra != nil, x.Extra
			if x.GetStatusMessage() != x.StatusMessage || x.GetStatusCode() != x.StatusCode || x.IsSetExtra() != got.HasMap || len(x.GetExtra()) != len(x.Extra) || (x.Extra != nil) != got.HasMap {
				bad("getters", "after FastRead the getters disagree with the decoded fields (or calling them changed the value)")
				return
			}
		default:
			x := thrift.NewApplicationException(0, "")
			if k.Same {
				x = thrift.NewApplicationException(k.Want.I, k.Want.S[0]) // built by the constructor with the content that arrives
				if len(in)%2 == 1 {
					x.FastRead(append([]byte{}, in...)) // or decoded before from another copy
				}
			}
			n, err = x.FastRead(in)
			got.S[0], got.I = x.Msg(), x.TypeID()
		}
		for i := range in { // the caller reuses its buffer: decoded fields must not alias it
			in[i] = 0xEE
		}
		if err != nil {
			bad("error", "failed on a well-formed struct: %v", err)
			return
		}
		if n != k.StructN {
			bad("length", "consumed %d bytes, the struct is %d bytes long (input %d)", n, k.StructN, len(in))
			return
		}
		w := k.Want
		if got.S != w.S || got.I != w.I {
			bad("known-field", "known fields read as %q/%d, want %q/%d", got.S, got.I, w.S, w.I)
			return
		}
		if got.HasMap != w.HasMap {
			bad("nil-vs-empty", "optional map present=%v, want %v (absent stays absent, empty stays empty)", got.HasMap, w.HasMap)
			return
		}
		if w.HasMap && !(len(got.Extra) == len(w.extra()) && (len(got.Extra) == 0 || reflect.DeepEqual(got.Extra, w.extra()))) {
			if w.Big > 0 {
				bad("map", "map of %d entries read as a map of %d entries", w.Big, len(got.Extra))
				return
			}
			bad("map", "map read as %v, want %v", got.Extra, w.extra())
			return
		}
		if w.HasMap && w.Big == 0 {
			// the decoded map belongs to the caller: adding to it must not show up in a value decoded later
			got.Extra["verif-added-by-the-caller"] = "x"
			in2, _ := hex.DecodeString(inHex)
			var m2 map[string]string
			if k.Kind == "base" {
				var y base.Base
				y.FastRead(in2)
				m2 = y.Extra
			} else {
				var y base.BaseResp
				y.FastRead(in2)
				m2 = y.Extra
			}
			if _, leaked := m2["verif-added-by-the-caller"]; leaked || len(m2) != len(w.extra()) {
				bad("map-shared", "an entry the caller added to a decoded map appears in the map of a value decoded afterwards (%d entries, want %d)", len(m2), len(w.extra()))
			}
		}
	})
	if pi != nil {
		bad("panic", "panic: %s at %s", pi.Msg, pi.Frame)
	}
}

func permutations(n int) [][]int {
	var out [][]int
	var rec func(cur []int, used int)
	rec = func(cur []int, used int) {
		out = append(out, append([]int{}, cur...)) // every ordered selection (subsets x permutations)
		for i := 0; i < n; i++ {
			if used&(1<<i) == 0 {
				rec(append(cur, i), used|1<<i)
			}
		}
	}
	rec(nil, 0)
	return out
}

func c11Run(c *mc.Ctx) {
	th := c.Thorough()
	strs := []string{"", "a", string(nonUTF8S), string(c01Str(4097)), "hé服😀"}
	ints := []int32{0, 1, -1, -2147483648, 2147483647, 0x01020304}
	extras := []c11Val{{}, {HasMap: true}, {HasMap: true, Extra: map[string]string{"k": "v"}}, {HasMap: true, Extra: map[string]string{"k1": "v1", "k2": string(nonUTF8S)}}, {HasMap: true, Extra: map[string]string{"": ""}}}
	// ---- write side ----
	for _, kind := range []string{"base", "baseresp", "exception", "protocol-exception", "transport-exception", "protocol-exception-with-cause"} {
		if kind == "base" || kind == "baseresp" {
			c11Write(c, c11Val{Kind: kind, Nil: true})
		}
		for _, s0 := range strs {
			for _, s1 := range strs {
				for _, s2 := range strs {
					for _, i := range ints {
						for _, e := range extras {
							if kind != "base" && (s1 != "" || s2 != "") {
								continue
							}
							if kind == "base" && i != 0 {
								continue
							}
							if strings.Contains(kind, "exception") && (e.HasMap || (kind == "protocol-exception-with-cause" && i != 0)) {
								continue
							}
							if !c.Mine() {
								continue
							}
							v := c11Val{Kind: kind, S: [3]string{s0, s1, s2}, I: i, Extra: e.Extra, HasMap: e.HasMap}
							c.Distinct("w", kind, s0, s1, s2, i, fmt.Sprint(e))
							c11Write(c, v)
							if kind == "base" || kind == "baseresp" {
								v.Acc = true
								c.Distinct("wacc", kind, s0, s1, s2, i, fmt.Sprint(e))
								c11Write(c, v)
							}
						}
					}
				}
			}
		}
	}
	for _, kind := range []string{"base", "baseresp"} {
		for _, n := range []int{255, 256, 65535, 65536, 65537, 70001} {
			if !c.Mine() {
				continue
			}
			v := c11Val{Kind: kind, S: [3]string{"l", "", ""}, HasMap: true, Big: n}
			if kind == "baseresp" {
				v.I = 3
			}
			c.Distinct("wbig", kind, n)
			c11Write(c, v)
			enc := thrift.FastMarshal(c11Codec(v))
			c11ReadOne(c, c11Read{Kind: kind, StructN: len(enc), Want: v, Desc: fmt.Sprintf("map of %d entries", n)}, append(enc, 0x7e))
		}
	}
	c.Done("write side: Base/BaseResp/ApplicationException over 4 string values per field x 6 i32 x nil/empty/1/2/empty-key maps, maps of 255..70001 entries (written, parsed by the reference, read back), nil receiver; every value also built through New*/InitDefault/Set* and read through every Get*/IsSet*/String before encoding; Error() is read-only; BLength == FastWrite == FastWriteNocopy(nil) == FastMarshal; bytes parsed order-insensitively")
	// ---- read side ----
	var unknowns []ref.Value
	_ = th
	if true {
		for _, tr := range gen.Trees(false, 3) {
			unknowns = append(unknowns, tr.V)
		}
	} else {
		for _, t := range ref.T11 {
			unknowns = append(unknowns, gen.Small(t, 0))
		}
		unknowns = append(unknowns, ref.Value{T: ref.LIST, Elem: ref.STRUCT, L: []ref.Value{gen.Small(ref.STRUCT, 0), gen.Small(ref.STRUCT, 1)}},
			ref.Value{T: ref.MAP, Key: ref.STRING, Elem: ref.LIST, L: []ref.Value{strV("k"), gen.Small(ref.LIST, 0)}},
			ref.Value{T: ref.MAP, Key: ref.I32, Elem: ref.I64, L: []ref.Value{gen.Small(ref.I32, 0), gen.Small(ref.I64, 0), gen.Small(ref.I32, 1), gen.Small(ref.I64, 1)}},
			ref.Value{T: ref.STRING, S: c01Str(300)})
	}
	// unknown values whose length / element count needs more than one byte of the size field
	big := ref.Value{T: ref.LIST, Elem: ref.BYTE}
	for i := 0; i < 300; i++ {
		big.L = append(big.L, ref.Value{T: ref.BYTE, I: uint64(i)})
	}
	bigMap := ref.Value{T: ref.MAP, Key: ref.I16, Elem: ref.BOOL}
	for i := 0; i < 0x0201; i++ {
		bigMap.L = append(bigMap.L, ref.Value{T: ref.I16, I: uint64(i)}, ref.Value{T: ref.BOOL, I: 1})
	}
	for _, d := range []int{12, 30, 60} { // deeply nested unknown values: the skipper recurses (and the goroutine stack grows)
		unknowns = append(unknowns, gen.Chain("struct", d, ref.BYTE), gen.Chain("list", d, ref.STRING))
	}
	unknowns = append(unknowns, ref.Value{T: ref.STRING, S: c01Str(0x0102)}, ref.Value{T: ref.STRING, S: c01Str(0x010203)}, big, bigMap,
		ref.Value{T: ref.SET, Elem: ref.STRING, L: []ref.Value{{T: ref.STRING, S: c01Str(0x0304)}, {T: ref.STRING, S: []byte{}}}})
	type known struct {
		id int16
		v  ref.Value
	}
	ex2 := strMapV("k1", "v1", "\xe9", "\xff") // one-byte strings that are not ASCII: a byte converted as a rune would grow
	exE := strMapV()
	kinds := []struct {
		kind   string
		fields []known
		want   func(sel []int, fs []known) c11Val
	}{
		{"base", []known{{1, strV("log")}, {2, strV("caller")}, {3, strV(string(nonUTF8S))}, {6, ex2}}, nil},
		{"base", []known{{1, strV("")}, {2, strV("c")}, {3, strV("\xe9")}, {6, exE}}, nil},
		{"baseresp", []known{{1, strV("msg")}, {2, ref.Value{T: ref.I32, I: 0x80000001}}, {3, ex2}}, nil},
		{"baseresp", []known{{1, strV("\xff")}, {2, ref.Value{T: ref.I32, I: 7}}, {3, exE}}, nil},
		{"exception", []known{{1, strV("boom")}, {2, ref.Value{T: ref.I32, I: 0xffffffff}}}, nil},
	}
	toWant := func(kind string, sel []int, fs []known) c11Val {
		w := c11Val{Kind: kind}
		for _, i := range sel {
			f := fs[i]
			switch {
			case f.v.T == ref.STRING:
				w.S[f.id-1] = string(f.v.S)
			case f.v.T == ref.I32:
				w.I = int32(uint32(f.v.I))
			case f.v.T == ref.MAP:
				w.HasMap = true
				w.Extra = map[string]string{}
				for j := 0; j+1 < len(f.v.L); j += 2 {
					w.Extra[string(f.v.L[j].S)] = string(f.v.L[j+1].S)
				}
			}
		}
		return w
	}
	trailers := [][]byte{nil, {0x00}, {0x0b, 0x00, 0x01, 0x00, 0x00, 0x00, 0x01, 0x41, 0x00}}
	for _, kd := range kinds {
		perms := permutations(len(kd.fields))
		knownType := map[int16]int8{}
		for _, f := range kd.fields {
			knownType[f.id] = f.v.T
		}
		for _, sel := range perms {
			if !c.Mine() {
				continue
			}
			if c.Expired() {
				c.Incomplete("read side: deadline")
				return
			}
			want := toWant(kd.kind, sel, kd.fields)
			build := func(ins map[int][]ref.Field) []byte {
				v := ref.Value{T: ref.STRUCT}
				for gap := 0; gap <= len(sel); gap++ {
					v.F = append(v.F, ins[gap]...)
					if gap < len(sel) {
						f := kd.fields[sel[gap]]
						v.F = append(v.F, ref.Field{ID: f.id, V: f.v})
					}
				}
				return ref.Encode(nil, &v)
			}
			run := func(ins map[int][]ref.Field, desc string) {
				enc := build(ins)
				c.Distinct(enc)
				stack := false // inputs whose unknown field is a container make the skipper recurse: those also run from a stack-held copy
				for _, fs := range ins {
					for _, f := range fs {
						stack = stack || ref.IsContainer(f.V.T)
					}
				}
				for ti, tr := range trailers {
					in := append(append([]byte{}, enc...), tr...)
					c11ReadOne(c, c11Read{Kind: kd.kind, StructN: len(enc), Want: want, Desc: desc, Stack: stack && ti == 0 && len(sel) == len(kd.fields)}, in)
				}
				if len(sel) == len(kd.fields) {
					for _, tr := range trailers[:2] {
						in := append(append([]byte{}, enc...), tr...)
						c11ReadOne(c, c11Read{Kind: kd.kind, StructN: len(enc), Want: want, Desc: desc + ", decoded into a value that already holds this message", Same: true}, in)
					}
				}
				if len(sel) == len(kd.fields) && kd.kind != "exception" && ins == nil {
					in := append([]byte{}, enc...)
					c11ReadOne(c, c11Read{Kind: kd.kind, StructN: len(enc), Want: want, Desc: desc + ", decoded into a struct that held another message", Reuse: true}, in)
				}
			}
			run(nil, fmt.Sprintf("known fields in order %v", sel))
			// one unknown field at every gap: every unknown value x ids {100, -1} and ids colliding with a known id under another type
			for gap := 0; gap <= len(sel); gap++ {
				for ui, u := range unknowns {
					ids := []int16{100, -1}
					for id, kt := range knownType {
						if kt != u.T {
							ids = append(ids, id) // same id, other type
						} else {
							// same type, ids that agree with a known id in their low byte / differ in the high bits only
							ids = append(ids, id+256, id+0x7f00, id-256, id|-0x8000)
						}
					}
					for _, id := range ids {
						run(map[int][]ref.Field{gap: {{ID: id, V: u}}}, fmt.Sprintf("known fields %v, unknown #%d (type %d, id %d) at gap %d", sel, ui, u.T, id, gap))
					}
				}
			}
			// two unknown fields: all gap pairs x a small set
			two := []ref.Value{gen.Small(ref.I64, 0), gen.Small(ref.MAP, 0), gen.Small(ref.STRUCT, 0)}
			for g1 := 0; g1 <= len(sel); g1++ {
				for g2 := g1; g2 <= len(sel); g2++ {
					for a := range two {
						for b := range two {
							ins := map[int][]ref.Field{}
							ins[g1] = append(ins[g1], ref.Field{ID: 200, V: two[a]})
							ins[g2] = append(ins[g2], ref.Field{ID: 1, V: two[b]})
							if knownType[1] == two[b].T {
								continue
							}
							run(ins, fmt.Sprintf("known fields %v, two unknown fields at gaps %d,%d", sel, g1, g2))
						}
					}
				}
			}
		}
	}
	c.Sample("read", map[string]interface{}{"struct": "Base", "order": []int{3, 0, 2, 1}, "unknown": "id 6 as LIST between fields"})
	c.Done(fmt.Sprintf("read side: every ordered selection (subsets x permutations) of the known fields x {no, one (every gap x %d unknown values x ids 100/-1/colliding), two} unknown fields x 3 trailers", len(unknowns)))
}

var nonUTF8S = []byte{0xff, 0x00, 0xc3, 0x28, 0x80}

func init() {
	Register(&Check{
		ID: "C11", Level: "exploration",
		Rule:          "write side: product of field values (4 strings per field, 6 i32, 5 map shapes, nil receiver); read side: inputs built by the reference encoder — every ordered selection of the known fields x unknown fields at every gap (none, one of every generated value under ids 100/-1/ids colliding with known ids under other types, two) x trailing bytes; distinct = distinct struct encodings",
		Assumptions:   []string{"map entries are compared order-insensitively (Go map iteration order is not owned by the harness)"},
		Run:           c11Run,
		UnownedNondet: func(sub string, raw json.RawMessage) bool { return true },
		Replay: func(c *mc.Ctx, sub string, raw json.RawMessage) {
			if sub == "write" {
				replayAs(raw, func(v c11Val) { c11Write(c, v) })
				return
			}
			replayAs(raw, func(k c11Read) {
				in, _ := hex.DecodeString(k.InputHex)
				c11ReadOne(c, k, in)
			})
		},
	})
}
