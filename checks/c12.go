package checks

import (
	"bytes"
	"encoding/binary"
	"encoding/hex"
	"encoding/json"
	"errors"
	"fmt"
	"strings"

	"github.com/bytedance/gopkg/lang/mcache"
	"github.com/cloudwego/gopkg/bufiox"
	"github.com/cloudwego/gopkg/protocol/thrift"
	"github.com/cloudwego/gopkg/protocol/thrift/base"
	vsync "github.com/cloudwego/gopkg/verifshim/vsync"

	"verif/mc"
	"verif/ref"
)

// C12 — message envelope round-trips; strict version; exceptions surface as errors.

type c12Env struct {
	NameLen int    `json:"name_len"`
	NameHex string `json:"name_hex,omitempty"`
	Type    int32  `json:"type"`
	Seq     int32  `json:"seq"`
	Env     EnvCfg `json:"env"`
	Stream  bool   `json:"stream"`
	Cut     int    `json:"cut,omitempty"`
	EnvChoices
}

// c12Prefix: a header truncated to cut bytes must be rejected by both readers, under both settings of the span cache;
// a bytes reader over the caller's truncated frame must leave the caller's memory out of the shared pool.
func c12Prefix(c *mc.Ctx, nl, cut int) {
	full := ref.MessageBegin(nil, c12Name(nl), 1, 7)
	defer thrift.SetSpanCache(false)
	for _, span := range []bool{false, true} {
		thrift.SetSpanCache(span)
		c.Eval(2)
		p := full[:cut]
		if _, _, _, _, err := thrift.Binary.ReadMessageBegin(p); err == nil {
			c.Violate("prefix", "C12|prefix|Binary.ReadMessageBegin|accepted", fmt.Sprintf("Binary.ReadMessageBegin accepted a header truncated to %d of %d bytes (span cache %v)", cut, len(full), span), c12Env{NameLen: nl, Cut: cut})
		}
		for _, env := range []EnvCfg{{}, {Chunk: 1, ErrWithLast: true}} {
			r := bufiox.NewDefaultReader(NewEnvReader(p, env))
			b := thrift.NewBufferReader(r)
			if _, _, _, err := b.ReadMessageBegin(); err == nil {
				c.Violate("prefix", "C12|prefix|BufferReader.ReadMessageBegin|accepted", fmt.Sprintf("BufferReader.ReadMessageBegin accepted a header truncated to %d of %d bytes (span cache %v)", cut, len(full), span), c12Env{NameLen: nl, Cut: cut})
			}
			b.Recycle()
			r.Release(nil)
		}
		// the caller's own chunk (capacity a power of two, as network buffers are), truncated frame, Release, then an
		// unrelated writer: the header it writes must come out intact and the chunk must not have entered the pool
		mcache.VerifReset()
		vsync.Reset()
		pc := 8
		for pc < cut {
			pc <<= 1
		}
		chunk := make([]byte, pc)
		copy(chunk, p)
		r := bufiox.NewBytesReader(chunk[:cut:pc])
		b := thrift.NewBufferReader(r)
		_, _, _, err := b.ReadMessageBegin()
		b.Recycle()
		r.Release(nil)
		sink := &EnvWriter{}
		dw := bufiox.NewDefaultWriter(sink)
		bw := thrift.NewBufferWriter(dw)
		bw.WriteMessageBegin("after", 1, 9)
		for i := range chunk {
			chunk[i] = 0xEE // the owner reuses its chunk
		}
		dw.Flush()
		bw.Recycle()
		if a := mcache.VerifTakeAudit(); len(a) > 0 || err == nil || !bytes.Equal(sink.Got, ref.MessageBegin(nil, "after", 1, 9)) {
			c.Violate("prefix", "C12|prefix|bytes-reader", fmt.Sprintf("a bytes reader over the caller's power-of-two-sized chunk holding a header truncated to %d of %d bytes: err=%v; pool audit %v; an unrelated writer's next header came out as %s", cut, len(full), err, a, mc.Hex(sink.Got)), c12Env{NameLen: nl, Cut: cut})
		}
	}
}

func c12Name(n int) string {
	b := make([]byte, n)
	for i := range b {
		b[i] = byte(i*31 + 0x61 + i/200)
	}
	if n == 1 {
		b[0] = 0xe9 // one byte that is not ASCII
	}
	if n > 2 {
		b[1], b[2] = 0xff, 0x00 // arbitrary bytes
	}
	return string(b)
}

// c12Envelope: three writers == reference; both readers return the same header.
func c12Envelope(c *mc.Ctx, k c12Env, withStream bool) {
	c.Eval(1)
	name := c12Name(k.NameLen)
	if k.NameHex != "" {
		b, _ := hex.DecodeString(k.NameHex)
		name = string(b)
	}
	want := ref.MessageBegin(nil, name, k.Type, k.Seq)
	bad := func(class, format string, a ...interface{}) {
		k.EnvChoices = currentEnvChoices()
		c.Violate("envelope", "C12|envelope|"+class, fmt.Sprintf("message header name=%d bytes type=%d seq=%d [%s]: ", len(name), k.Type, k.Seq, k.Env)+fmt.Sprintf(format, a...), k)
	}
	pi := mc.Try(func() {
		B := thrift.Binary
		if l := B.MessageBeginLength(name); l != len(want) {
			bad("length-fn", "MessageBeginLength = %d, the wire header has %d bytes", l, len(want))
			return
		}
		buf := make([]byte, len(want)+4)
		if n := B.WriteMessageBegin(buf, name, k.Type, k.Seq); n != len(want) || !bytes.Equal(buf[:n], want) {
			bad("write", "WriteMessageBegin wrote %d bytes %s, want %s", n, mc.Hex(buf[:n]), mc.Hex(want))
			return
		}
		// appending writer onto destinations of every relevant shape: nil, short prefix, and prefixes whose spare
		// capacity is just below / exactly / above what the header needs
		for _, sh := range [][2]int{{0, 0}, {1, 1}, {2, 64}, {20, 20 + len(want) - 1}, {20, 20 + len(want)}, {20, 32}, {30, 32}, {3, len(want)}, {len(want), len(want) + 1}} {
			if sh[1] < sh[0] {
				continue
			}
			dst := make([]byte, sh[0], sh[1])
			for i := range dst {
				dst[i] = 0xA0 | byte(i&7)
			}
			keep := append([]byte{}, dst...)
			ab := B.AppendMessageBegin(dst, name, k.Type, k.Seq)
			if len(ab) != len(keep)+len(want) || !bytes.Equal(ab[:len(keep)], keep) || !bytes.Equal(ab[len(keep):], want) {
				bad("append", "AppendMessageBegin onto a destination of len %d cap %d produced %d bytes, want prefix + %d header bytes", sh[0], sh[1], len(ab), len(want))
				return
			}
		}
		mcache.VerifReset()
		vsync.Reset()
		sink := &EnvWriter{}
		dw := bufiox.NewDefaultWriter(sink)
		bw := thrift.NewBufferWriter(dw)
		if err := bw.WriteMessageBegin(name, k.Type, k.Seq); err != nil {
			bad("bufwrite", "BufferWriter.WriteMessageBegin: %v", err)
			return
		}
		dw.Flush()
		bw.Recycle()
		if !bytes.Equal(sink.Got, want) {
			bad("bufwrite", "BufferWriter.WriteMessageBegin delivered %s, want %s", mc.Hex(sink.Got), mc.Hex(want))
			return
		}
		// a bytes writer over a slice that already holds a frame-size placeholder
		{
			target := append(make([]byte, 0, 8), 0xf1, 0xf2, 0xf3, 0xf4)
			pw := bufiox.NewBytesWriter(&target)
			bwp := thrift.NewBufferWriter(pw)
			bwp.WriteMessageBegin(name, k.Type, k.Seq)
			pw.Flush()
			bwp.Recycle()
			if !bytes.Equal(target, append([]byte{0xf1, 0xf2, 0xf3, 0xf4}, want...)) {
				bad("bufwrite-bytes-writer-prefix", "BufferWriter over a bytes writer whose slice already held 4 bytes produced %s, want those 4 bytes followed by %s", mc.Hex(target), mc.Hex(want))
				return
			}
		}
		// two flush cycles through ONE bytes-backed writer over a small caller buffer, with different headers
		{
			target := make([]byte, 0, 16)
			yw := bufiox.NewBytesWriter(&target)
			bw2 := thrift.NewBufferWriter(yw)
			// cycle 1: eight bytes that fit the caller's buffer, then a header that outgrows it
			first := append([]byte{0x11, 0x12, 0x13, 0x14, 0x21, 0x22, 0x23, 0x24}, ref.MessageBegin(nil, "first-"+name, 1, 1)...)
			bw2.WriteI32(0x11121314)
			bw2.WriteI32(0x21222324)
			bw2.WriteMessageBegin("first-"+name, 1, 1)
			yw.Flush()
			if !bytes.Equal(target, first) {
				bad("bufwrite-bytes-writer", "BufferWriter over a bytes writer (cycle 1) produced %s, want %s", mc.Hex(target), mc.Hex(first))
				return
			}
			bw2.WriteMessageBegin(name, k.Type, k.Seq)
			yw.Flush()
			bw2.Recycle()
			if !bytes.Equal(target, want) && !bytes.Equal(target, append(append([]byte{}, first...), want...)) {
				bad("bufwrite-bytes-writer-second-cycle", "the second header written through the same bytes writer after a Flush came out as %s, want %s", mc.Hex(target), mc.Hex(want))
				return
			}
		}
		if withStream && k.NameLen <= 300 {
			// a long-lived connection: 13 headers through ONE buffered writer (Flush after each) and ONE buffered reader
			// (Release after each) - more cycles than any internal window of recent sizes
			lsink := &EnvWriter{}
			ldw := bufiox.NewDefaultWriter(lsink)
			lbw := thrift.NewBufferWriter(ldw)
			var all []byte
			// every header carries its own name (same length, different content): a name that still points into the
			// reader's buffer shows up as a later header's name once all 13 are compared at the end
			nameOf := func(i int) string {
				if len(name) == 0 {
					return name
				}
				i /= 2 // consecutive headers share a name in pairs and differ in type and sequence id
				b := []byte(name[i%len(name):] + name[:i%len(name)])
				b[0] = byte('A' + i)
				return string(b)
			}
			// ... so that nothing keyed by the method name alone may be reused for the next header
			typeOf := func(i int) thrift.TMessageType { return k.Type ^ thrift.TMessageType(i&1) ^ thrift.TMessageType(i&4)>>1 }
			for i := 0; i < 13; i++ {
				lbw.WriteMessageBegin(nameOf(i), typeOf(i), k.Seq+int32(i))
				ldw.Flush()
				all = ref.MessageBegin(all, nameOf(i), typeOf(i), k.Seq+int32(i))
			}
			lbw.Recycle()
			if !bytes.Equal(lsink.Got, all) {
				bad("long-lived-writer", "13 headers written through one buffered writer (Flush after each) delivered %d bytes, want %d; first difference at %d", len(lsink.Got), len(all), firstDiff(lsink.Got, all))
				return
			}
			lr := bufiox.NewDefaultReader(NewEnvReader(all, k.Env).Src())
			lbr := thrift.NewBufferReader(lr)
			var names [13]string
			for i := 0; i < 13; i++ {
				gn, gt, gs, err := lbr.ReadMessageBegin()
				if err != nil || gn != nameOf(i) || gt != typeOf(i)&0xffff || gs != k.Seq+int32(i) {
					bad("long-lived-reader", "header %d of 13 read through one buffered reader (Release after each): (name eq=%v, type %d, seq %d, %v)", i+1, gn == nameOf(i), gt, gs, err)
					return
				}
				names[i] = gn
				lr.Release(nil)
			}
			lbr.Recycle()
			for i := 0; i < 13; i++ {
				if names[i] != nameOf(i) {
					bad("long-lived-reader-name-kept", "the method name of header %d of 13, correct when it was read, changed after later headers were read through the same buffered reader (Release after each): now %q, want %q", i+1, trunc40(names[i]), trunc40(nameOf(i)))
					return
				}
			}
		}
		in := append(append([]byte{}, want...), 0x7e)
		gn, gt, gs, l, err := B.ReadMessageBegin(in)
		if err != nil || gn != name || gt != k.Type&0xffff || gs != k.Seq || l != len(want) {
			bad("read", "Binary.ReadMessageBegin = (name %d bytes eq=%v, type %d, seq %d, len %d, %v), want (type %d, seq %d, len %d)", len(gn), gn == name, gt, gs, l, err, k.Type&0xffff, k.Seq, len(want))
			return
		}
		check := func(r bufiox.Reader, label string) {
			br := thrift.NewBufferReader(r)
			gn, gt, gs, err := br.ReadMessageBegin()
			if err != nil || gn != name || gt != k.Type&0xffff || gs != k.Seq || int(br.Readn()) != len(want) {
				bad("bufread:"+label, "BufferReader.ReadMessageBegin over %s = (name %d bytes eq=%v, type %d, seq %d, consumed %d, %v), want (type %d, seq %d, %d)", label, len(gn), gn == name, gt, gs, br.Readn(), err, k.Type&0xffff, k.Seq, len(want))
			}
			br.Recycle()
			r.Release(nil)
		}
		check(bufiox.NewBytesReader(in), "BytesReader")
		if withStream {
			check(bufiox.NewDefaultReader(NewEnvReader(in, k.Env).Src()), "DefaultReader")
		}
	})
	if pi != nil {
		vsync.Reset()
		bad("panic", "panic: %s at %s", pi.Msg, pi.Frame)
	}
}

type c12Short struct {
	Hex    string `json:"input_hex"`
	Env    EnvCfg `json:"env"`
	Stream bool   `json:"stream"`
}

type c12Word struct {
	Word  uint32 `json:"first_word"`
	Short bool   `json:"short,omitempty"`
}

// c12Version: a first word whose upper 16 bits are not 0x8001 => BAD_VERSION on both readers; otherwise accepted, type = low 16 bits.
func c12Version(c *mc.Ctx, word uint32, in []byte, br *thrift.BufferReader, r *bufiox.BytesReader) {
	binary.BigEndian.PutUint32(in, word)
	good := word>>16 == 0x8001
	_, t, _, _, err := thrift.Binary.ReadMessageBegin(in)
	ok1 := (good && err == nil && t == int32(word&0xffff)) || (!good && err != nil && protoTypeID(err) == tidBadVersion)
	*r = *bufiox.NewBytesReader(in)
	_, t2, _, err2 := br.ReadMessageBegin()
	ok2 := (good && err2 == nil && t2 == int32(word&0xffff)) || (!good && err2 != nil && protoTypeID(err2) == tidBadVersion)
	if !ok1 || !ok2 {
		which := "Binary.ReadMessageBegin"
		e, tt := err, t
		if ok1 {
			which, e, tt = "BufferReader.ReadMessageBegin", err2, t2
		}
		class := "bad-version-accepted"
		if good {
			class = "good-version-rejected-or-wrong-type"
		} else if e != nil {
			class = "bad-version-wrong-type-id"
		}
		c.Violate("version", "C12|version|"+which+"|"+class, fmt.Sprintf("%s on first word %#08x: err=%v type=%d (strict version marker is 0x8001 in the upper 16 bits; otherwise BAD_VERSION)", which, word, e, tt), c12Word{Word: word})
	}
}

type c12Msg struct {
	Method string `json:"method"`
	Type   int32  `json:"type"`
	Seq    int32  `json:"seq"`
	Pay    c11Val `json:"payload"`
	Unk    bool   `json:"exception_with_unknown_fields,omitempty"`
}

func c12Marshal(c *mc.Ctx, k c12Msg) {
	c.Eval(1)
	bad := func(class, format string, a ...interface{}) {
		c.Violate("msg", "C12|msg|"+class, fmt.Sprintf("MarshalFastMsg/UnmarshalFastMsg method=%q type=%d seq=%d payload=%+v: ", k.Method, k.Type, k.Seq, k.Pay)+fmt.Sprintf(format, a...), k)
	}
	pi := mc.Try(func() {
		var b []byte
		var err error
		if k.Unk { // an EXCEPTION message as a newer peer would send it: built by the reference, with unknown fields
			st := exceptionStruct(k.Pay.S[0], k.Pay.I, ref.Field{ID: 3, V: strV("extra")}, ref.Field{ID: 4, V: ref.Value{T: ref.LIST, Elem: ref.I32, L: []ref.Value{{T: ref.I32, I: 1}}}})
			st.F[0], st.F[2] = st.F[2], st.F[0]
			// extension fields a newer peer may add: ids that agree with the known ids 1/2 in their low byte or low 15 bits
			for _, hi := range []int16{0x100, 0x200, 0x4000, -0x8000, 0x7f00} {
				st.F = append(st.F, ref.Field{ID: hi | 1, V: strV("not the text")}, ref.Field{ID: hi | 2, V: ref.Value{T: ref.I32, I: 424242}},
					ref.Field{ID: hi | 1, V: ref.Value{T: ref.I32, I: 7}}, ref.Field{ID: hi | 2, V: strV("x")})
			}
			b = ref.Encode(ref.MessageBegin(nil, k.Method, k.Type, k.Seq), &st)
		} else {
			codec := c11Codec(k.Pay)
			if e, isErr := codec.(error); isErr && len(k.Method)%2 == 1 {
				_ = e.Error() // the exception was logged before it is sent: that changes nothing
				_ = fmt.Sprintf("%v %s", e, e)
			}
			b, err = thrift.MarshalFastMsg(k.Method, k.Type, k.Seq, codec)
			if err != nil {
				bad("marshal-error", "MarshalFastMsg: %v", err)
				return
			}
		}
		sentinel := &base.Base{LogID: "sentinel", Caller: "sentinel", Addr: "sentinel", Extra: map[string]string{"s": "s"}}
		var target thrift.FastCodec = sentinel
		var resp base.BaseResp
		if k.Pay.Kind == "baseresp" && k.Type&0xffff != 3 {
			target = &resp
		} else if k.Pay.Kind == "base" && k.Type&0xffff != 3 {
			sentinel = &base.Base{}
			target = sentinel
		}
		m, seq, err := thrift.UnmarshalFastMsg(b, target)
		for i := range b { // the caller reuses its input buffer for the next message: results must not change
			b[i] = 0xEE
		}
		if m != k.Method || seq != k.Seq {
			bad("header", "returned method %q seq %d (err %v)", m, seq, err)
			return
		}
		if k.Type&0xffff == 3 {
			var ae *thrift.ApplicationException
			if !errors.As(err, &ae) || ae == nil {
				bad("exception-not-error", "an EXCEPTION message did not come back as *ApplicationException: %v (%T)", err, err)
				return
			}
			if _, isProto := err.(*thrift.ProtocolException); isProto {
				bad("exception-not-error", "an EXCEPTION message came back as a protocol exception")
				return
			}
			if strings.Contains(k.Pay.Kind, "exception") && (ae.TypeID() != k.Pay.I || ae.Msg() != k.Pay.S[0]) {
				bad("exception-content", "exception came back with type id %d text %q, want %d %q", ae.TypeID(), ae.Msg(), k.Pay.I, k.Pay.S[0])
				return
			}
			if sentinel.LogID != "sentinel" || sentinel.Caller != "sentinel" || sentinel.Addr != "sentinel" || len(sentinel.Extra) != 1 {
				bad("exception-decoded-into-struct", "the caller's struct was modified by an EXCEPTION message: %+v", *sentinel)
			}
			return
		}
		if err != nil {
			bad("unmarshal-error", "UnmarshalFastMsg: %v", err)
			return
		}
		switch k.Pay.Kind {
		case "base":
			w := k.Pay
			g := sentinel
			if g.LogID != w.S[0] || g.Caller != w.S[1] || g.Addr != w.S[2] || (g.Extra != nil) != (w.HasMap && !w.Nil) || len(g.Extra) != len(w.extra()) {
				bad("payload", "payload came back as %+v", *g)
			}
			for kk, vv := range w.extra() {
				if g.Extra[kk] != vv {
					bad("payload", "payload map came back as %v", g.Extra)
				}
			}
		case "baseresp":
			if resp.StatusMessage != k.Pay.S[0] || resp.StatusCode != k.Pay.I || len(resp.Extra) != len(k.Pay.extra()) {
				bad("payload", "payload came back as %+v", resp)
			}
		}
	})
	if pi != nil {
		bad("panic", "panic: %s at %s", pi.Msg, pi.Frame)
	}
}

type c12BadExc struct {
	Cut  int    `json:"body_cut,omitempty"`
	Kind string `json:"kind"` // truncated | negative-size | unknown-type
}

// c12BadException: an EXCEPTION message whose BODY is malformed is a decode failure: UnmarshalFastMsg returns an error
// that is not a (half-decoded) application exception.
func c12BadException(c *mc.Ctx, k c12BadExc) {
	c.Eval(1)
	hdr := ref.MessageBegin(nil, "method", 3, 77)
	st := exceptionStruct("the real text of the exception", 6)
	body := ref.Encode(nil, &st)
	switch k.Kind {
	case "truncated":
		body = body[:k.Cut]
	case "negative-size":
		body[3], body[4], body[5], body[6] = 0xff, 0xff, 0xff, 0xf0 // the string length of field 1
	case "unknown-type":
		body = append([]byte{0x05, 0x00, 0x09, 0x01}, body...) // a field of type 5 (not a Thrift type) first
	}
	in := append(hdr, body...)
	sentinel := &base.Base{LogID: "sentinel"}
	var err error
	if pi := mc.Try(func() { _, _, err = thrift.UnmarshalFastMsg(in, sentinel) }); pi != nil {
		c.Violate("badexc", "C12|exception-body|panic", fmt.Sprintf("UnmarshalFastMsg on an EXCEPTION message with a %s body (%d of %d body bytes): panic: %s at %s", k.Kind, len(body), len(ref.Encode(nil, &st)), pi.Msg, pi.Frame), k)
		return
	}
	if err == nil {
		c.Violate("badexc", "C12|exception-body|accepted", fmt.Sprintf("UnmarshalFastMsg accepted an EXCEPTION message with a %s body", k.Kind), k)
		return
	}
	if ae, ok := err.(*thrift.ApplicationException); ok {
		c.Violate("badexc", "C12|exception-body|half-decoded-exception", fmt.Sprintf("UnmarshalFastMsg on an EXCEPTION message with a %s body (%d body bytes) returned the half-decoded application exception (type id %d, text %q) instead of a decode error", k.Kind, len(body), ae.TypeID(), ae.Msg()), k)
	}
}

// c12Decorated: see the comment inside.
func c12Decorated(c *mc.Ctx) {
	// a rejection that the caller decorated (PrependError, as generated code and servers do for logging) must not change
	// what later rejections look like: same text, same type id, still matching the canonical exception
	{
		c.Eval(1)
		bad1 := []byte{0x00, 0x01, 0x00, 0x01, 0, 0, 0, 1, 'm', 0, 0, 0, 1}
		trunc := ref.MessageBegin(nil, "method", 1, 7)[:9]
		first := func(in []byte) (error, error) {
			_, _, _, _, e1 := thrift.Binary.ReadMessageBegin(in)
			r := bufiox.NewBytesReader(in)
			b := thrift.NewBufferReader(r)
			_, _, _, e2 := b.ReadMessageBegin()
			b.Recycle()
			r.Release(nil)
			return e1, e2
		}
		for _, in := range [][]byte{bad1, trunc} {
			a1, a2 := first(in)
			if a1 == nil || a2 == nil {
				continue // reported elsewhere
			}
			t1, t2, id1, id2 := a1.Error(), a2.Error(), protoTypeID(a1), protoTypeID(a2)
			for round := 0; round < 3; round++ {
				thrift.PrependError(fmt.Sprintf("conn %d: ", round), a1)
				thrift.PrependError(fmt.Sprintf("conn %d: ", round), a2)
				b1, b2 := first(in)
				if b1 == nil || b2 == nil || b1.Error() != t1 || b2.Error() != t2 || protoTypeID(b1) != id1 || protoTypeID(b2) != id2 {
					c.Violate("decorated", "C12|rejection-changed-by-earlier-decoration", fmt.Sprintf("after an earlier rejection of %x was decorated with PrependError, the same input is now rejected with %q / %q (before: %q / %q)", in, b1, b2, t1, t2), c12Short{Hex: fmt.Sprintf("%x", in)})
					break
				}
			}
		}
	}
}

func c12Run(c *mc.Ctx) {
	th := c.Thorough()
	setAllocCap(256 << 20)
	// (1) envelopes: all 65536 message types; name lengths; seq alphabet; stream policies
	lo, hi := c.Span(65536)
	for t := lo; t < hi; t++ {
		c12Envelope(c, c12Env{NameLen: 3, Type: int32(t), Seq: int32(t * 65537)}, t%1021 == 0)
	}
	c.DistinctN(hi - lo)
	envs := c02Envs(true)
	seqs := []int32{0, 1, -1, -2147483648, 2147483647, 0x01020304, 0x00ff00ff}
	for _, nl := range []int{0, 1, 2, 5, 255, 256, 4096, 4097, 65536} {
		for _, t := range []int32{0, 1, 2, 3, 4, 0xffff, 0x8000, 0x10001, -1} {
			for _, s := range seqs {
				if !c.Mine() {
					continue
				}
				c.Distinct("env", nl, t, s)
				c12Envelope(c, c12Env{NameLen: nl, Type: t, Seq: s}, false)
				for _, env := range envs {
					if nl > 5000 && env.Chunk > 0 && env.Chunk < 7 {
						continue
					}
					c12Envelope(c, c12Env{NameLen: nl, Type: t, Seq: s, Env: env, Stream: true}, true)
				}
			}
		}
	}
	for i := 0; i < 32; i++ { // every single-bit sequence id
		if c.Mine() {
			c12Envelope(c, c12Env{NameLen: 4, Type: 1, Seq: int32(uint32(1) << i)}, true)
		}
	}
	// per-Read deviations on short envelopes
	bound := 1
	if th {
		bound = 2
	}
	var devN int64
	for _, nl := range []int{0, 1, 5, 40} {
		for _, wl := range []bool{false, true} {
			if !c.Mine() {
				continue
			}
			n, ok := exploreEnv(c, bound, func() {
				c12Envelope(c, c12Env{NameLen: nl, Type: 2, Seq: -2, Env: EnvCfg{Chunk: 5, ErrWithLast: wl, AfterErr: 1}, Stream: true}, true)
			})
			devN += n
			if !ok {
				c.Incomplete("envelope deviations: deadline")
			}
		}
	}
	c.Count("deviation-executions", devN)
	c.Sample("envelope", c12Env{NameLen: 4097, Type: 0xffff, Seq: -1, Env: EnvCfg{Chunk: 7, ErrWithLast: true}, Stream: true})
	c.Done("envelopes: all 65536 message types; 9 name lengths 0..65536 x 9 types x 7 sequence ids x every fragmentation policy; 3 writers x 2 readers")
	// (2) strict version: first-word sweeps on both readers
	in := append(ref.MessageBegin(nil, "m", 0, 5), 0)
	br := thrift.NewBufferReader(nil)
	rd := bufiox.NewBytesReader(in)
	*br = *thrift.NewBufferReader(rd)
	if th {
		lo, hi := c.Span(1 << 32)
		for w := lo; w < hi; w++ {
			if w&0xfffff == 0 && c.Expired() {
				c.Incomplete("all 2^32 first words: deadline")
				return
			}
			c12Version(c, uint32(w), in, br, rd)
		}
		c.Eval(2 * (hi - lo))
		c.DistinctN(hi - lo)
		c.Done("strict version: all 2^32 first-word values on both readers")
	} else {
		for u := lo; u < hi; u++ {
			for _, low := range []uint32{0, 1, 0xffff} {
				c12Version(c, uint32(u)<<16|low, in, br, rd)
			}
			c12Version(c, 0x80010000|uint32(u), in, br, rd)
		}
		c.Eval(8 * (hi - lo))
		c.DistinctN(4 * (hi - lo))
		c.Done("strict version: all 65536 upper halves x 3 lower halves and all 65536 lower halves under 0x8001, both readers")
	}
	// (3) every strict prefix of every envelope is rejected, on both readers
	for _, nl := range []int{0, 1, 5, 300} {
		if !c.Mine() {
			continue
		}
		full := ref.MessageBegin(nil, c12Name(nl), 1, 7)
		for cut := 0; cut < len(full); cut++ {
			if pi := mc.Try(func() { c12Prefix(c, nl, cut) }); pi != nil {
				c.Violate("prefix", "C12|prefix|panic", fmt.Sprintf("panic on a header truncated to %d bytes: %s at %s", cut, pi.Msg, pi.Frame), c12Env{NameLen: nl, Cut: cut})
			}
		}
	}
	// a first word without the strict marker on inputs of 4..11 bytes: BAD_VERSION on both readers, not a truncation error
	if c.Mine() {
		for _, word := range []uint32{0, 0x00010000, 0x80000001, 0x47455420, 0x7fffffff, 0x80020001, 0xffffffff} {
			for n := 4; n <= 11; n++ {
				in := make([]byte, n)
				binary.BigEndian.PutUint32(in, word)
				c.Eval(2)
				_, _, _, _, err := thrift.Binary.ReadMessageBegin(in)
				if protoTypeID(err) != tidBadVersion {
					c.Violate("shortbad", "C12|short-bad-version|Binary.ReadMessageBegin", fmt.Sprintf("Binary.ReadMessageBegin on %x (first word lacks the strict-version marker): %v, want a BAD_VERSION protocol exception", in, err), c12Short{Hex: fmt.Sprintf("%x", in)})
				}
				for _, env := range []EnvCfg{{}, {Chunk: 1}, {ErrWithLast: true}} {
					r := bufiox.NewDefaultReader(NewEnvReader(in, env))
					b := thrift.NewBufferReader(r)
					_, _, _, err := b.ReadMessageBegin()
					b.Recycle()
					r.Release(nil)
					if protoTypeID(err) != tidBadVersion {
						c.Violate("shortbad", "C12|short-bad-version|BufferReader.ReadMessageBegin", fmt.Sprintf("BufferReader.ReadMessageBegin on a %d-byte stream %x (first word lacks the strict-version marker) [%s]: %v, want a BAD_VERSION protocol exception", n, in, env, err), c12Short{Hex: fmt.Sprintf("%x", in), Env: env, Stream: true})
					}
				}
			}
		}
		// name-length field at its boundaries: an error, never a panic
		full := ref.MessageBegin(nil, "name", 1, 7)
		for _, nl := range []uint32{0x7ffffffb, 0x7ffffffc, 0x7ffffffd, 0x7ffffffe, 0x7fffffff, 0x80000000, 0xfffffffc, 0xffffffff, 5, 9, 0x10000} {
			in := append([]byte{}, full...)
			binary.BigEndian.PutUint32(in[4:], nl)
			c.Eval(1)
			var err error
			if pi := mc.Try(func() { _, _, _, _, err = thrift.Binary.ReadMessageBegin(in) }); pi != nil || err == nil {
				c.Violate("shortbad", "C12|name-length-boundary|Binary.ReadMessageBegin", fmt.Sprintf("Binary.ReadMessageBegin with a declared name length of %#x on a %d-byte header: panic=%v err=%v, want an error", nl, len(in), pi != nil, err), c12Short{Hex: fmt.Sprintf("%x", in)})
			}
		}
	}
	if c.Shard == 0 {
		c12Decorated(c)
		st := exceptionStruct("the real text of the exception", 6)
		for cut := 0; cut < len(ref.Encode(nil, &st)); cut++ {
			c12BadException(c, c12BadExc{Cut: cut, Kind: "truncated"})
		}
		c12BadException(c, c12BadExc{Kind: "negative-size"})
		c12BadException(c, c12BadExc{Kind: "unknown-type"})
	}
	c.Done("every strict prefix of envelopes with 4 name lengths is rejected by both readers; bad first words on 4..11-byte inputs give BAD_VERSION; name-length boundary values give an error")
	// (4) MarshalFastMsg -> UnmarshalFastMsg
	pays := []c11Val{
		{Kind: "base", S: [3]string{"log", "caller", "addr"}, HasMap: true, Extra: map[string]string{"k": "v"}},
		{Kind: "base", S: [3]string{"", string(nonUTF8S), ""}},
		{Kind: "base", Nil: true},
		{Kind: "baseresp", S: [3]string{"msg"}, I: -5, HasMap: true},
		{Kind: "exception", S: [3]string{"boom"}, I: 6},
		{Kind: "exception", S: [3]string{""}, I: -1},
		{Kind: "exception", S: [3]string{""}, I: 999},
		{Kind: "exception", S: [3]string{"\xff"}, I: 262},
		{Kind: "exception", S: [3]string{string(c01Str(5000))}, I: 0x01020304},
		// the other exception kinds are FastCodecs too and are sent as EXCEPTION payloads (e.g. the error a stream reader
		// returned, forwarded to the peer)
		{Kind: "protocol-exception", S: [3]string{"bad thing"}, I: 4},
		{Kind: "transport-exception", S: [3]string{"not open"}, I: 1},
		{Kind: "protocol-exception-with-cause", S: [3]string{"connection reset by peer"}, I: 0},
	}
	for _, method := range []string{"m", "\xe9", "method", c12Name(300)} {
		for _, t := range []int32{0, 1, 2, 3, 4, 65535, 0x10003} {
			for _, s := range seqs {
				for _, p := range pays {
					for _, unk := range []bool{false, true} {
						if unk && (p.Kind != "exception" || t&0xffff != 3) || (p.Kind != "exception" && strings.Contains(p.Kind, "exception") && t&0xffff != 3) {
							continue
						}
						if !c.Mine() {
							continue
						}
						c.Distinct("msg", method, t, s, fmt.Sprint(p), unk)
						c12Marshal(c, c12Msg{Method: method, Type: t, Seq: s, Pay: p, Unk: unk})
					}
				}
			}
		}
	}
	c.Done(fmt.Sprintf("MarshalFastMsg -> UnmarshalFastMsg over 4 methods (incl. a one-byte non-ASCII name) x 7 message types x %d sequence ids x %d payloads (+ EXCEPTION messages with unknown fields built by the reference)", len(seqs), len(pays)))
}

func init() {
	Register(&Check{
		ID: "C12", Level: "exploration",
		Rule:          "all 65536 message types; name lengths {0,1,2,5,255,256,4096,4097,65536} with arbitrary bytes x types x sequence-id alphabet (+ every single-bit id) x every fragmentation policy; 3 writers x 2 readers; first-word sweep (quick: all 65536 upper halves x 3 lower + all 65536 lower halves; thorough: all 2^32) on both readers; every strict prefix; marshal/unmarshal product incl. EXCEPTION messages with unknown fields; distinct = distinct parameter tuples / first words",
		Assumptions:   []string{"MarshalFastMsg with an empty method returns its documented error and is not a round-trip case", "message types are compared modulo 2^16 (the wire carries 16 bits)"},
		Run:           c12Run,
		UnownedNondet: func(sub string, raw json.RawMessage) bool { return sub == "msg" },
		Replay: func(c *mc.Ctx, sub string, raw json.RawMessage) {
			setAllocCap(256 << 20)
			switch sub {
			case "envelope":
				replayAs(raw, func(k c12Env) { withEnvChoices(k.EnvChoices, func() { c12Envelope(c, k, true) }) })
			case "prefix":
				replayAs(raw, func(k c12Env) {
					if pi := mc.Try(func() { c12Prefix(c, k.NameLen, k.Cut) }); pi != nil {
						c.Violate("prefix", "C12|prefix|panic", fmt.Sprintf("panic on a header truncated to %d bytes: %s at %s", k.Cut, pi.Msg, pi.Frame), k)
					}
				})
			case "version":
				replayAs(raw, func(k c12Word) {
					in := append(ref.MessageBegin(nil, "m", 0, 5), 0)
					rd := bufiox.NewBytesReader(in)
					br := thrift.NewBufferReader(rd)
					c12Version(c, k.Word, in, br, rd)
				})
			case "msg":
				replayAs(raw, func(k c12Msg) { c12Marshal(c, k) })
			case "decorated":
				c12Decorated(c)
			case "badexc":
				replayAs(raw, func(k c12BadExc) { c12BadException(c, k) })
			case "shortbad":
				replayAs(raw, func(k c12Short) {
					in, _ := hex.DecodeString(k.Hex)
					var err error
					pi := mc.Try(func() {
						if k.Stream {
							r := bufiox.NewDefaultReader(NewEnvReader(in, k.Env).Src())
							b := thrift.NewBufferReader(r)
							_, _, _, err = b.ReadMessageBegin()
						} else {
							_, _, _, _, err = thrift.Binary.ReadMessageBegin(in)
						}
					})
					word := binary.BigEndian.Uint32(in)
					which := "Binary.ReadMessageBegin"
					if k.Stream {
						which = "BufferReader.ReadMessageBegin"
					}
					if word>>16 != 0x8001 {
						if pi != nil || protoTypeID(err) != tidBadVersion {
							c.Violate("shortbad", "C12|short-bad-version|"+which, fmt.Sprintf("%s on %x: %v", which, in, err), k)
						}
					} else if pi != nil || err == nil {
						c.Violate("shortbad", "C12|name-length-boundary|"+which, fmt.Sprintf("%s on %x: panic=%v err=%v", which, in, pi != nil, err), k)
					}
				})
			}
		},
	})
}

func trunc40(s string) string {
	if len(s) > 40 {
		return s[:40]
	}
	return s
}
