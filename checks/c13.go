package checks

import (
	"bytes"
	"encoding/hex"
	"encoding/json"
	"fmt"
	"math"
	"strings"

	"github.com/cloudwego/gopkg/protocol/thrift"
	"github.com/cloudwego/gopkg/protocol/thrift/unknownfields"

	"verif/gen"
	"verif/mc"
	"verif/ref"
)

// C13 — unknown-field trees convert to and from bytes without loss.

type c13Case struct {
	Hex  string `json:"fields_hex"`
	Desc string `json:"desc"`
}

// c13Expect builds the tree the converter must return for a reference value.
func c13Expect(id int16, v *ref.Value) unknownfields.UnknownField {
	f := unknownfields.UnknownField{ID: id, Type: v.T}
	switch v.T {
	case ref.BOOL:
		f.Value = v.I == 1
	case ref.BYTE:
		f.Value = int8(v.I)
	case ref.I16:
		f.Value = int16(v.I)
	case ref.I32:
		f.Value = int32(v.I)
	case ref.I64:
		f.Value = int64(v.I)
	case ref.DOUBLE:
		f.Value = math.Float64frombits(v.I)
	case ref.STRING:
		f.Value = string(v.S)
	case ref.LIST, ref.SET:
		f.ValType = v.Elem
		l := make([]unknownfields.UnknownField, len(v.L))
		for i := range v.L {
			l[i] = c13Expect(int16(i), &v.L[i])
		}
		f.Value = l
	case ref.MAP:
		f.KeyType, f.ValType = v.Key, v.Elem
		l := make([]unknownfields.UnknownField, len(v.L))
		for i := range v.L {
			l[i] = c13Expect(int16(i/2), &v.L[i])
		}
		f.Value = l
	case ref.STRUCT:
		var l []unknownfields.UnknownField
		for i := range v.F {
			l = append(l, c13Expect(v.F[i].ID, &v.F[i].V))
		}
		f.Value = l
	}
	return f
}

// c13Diff compares trees; ids of list/set/map members are not on the wire and are ignored (top=false => ignore id).
func c13Diff(path string, got, want unknownfields.UnknownField, cmpID bool) string {
	if cmpID && got.ID != want.ID {
		return fmt.Sprintf("%s: ID %d, want %d", path, got.ID, want.ID)
	}
	if got.Type != want.Type {
		return fmt.Sprintf("%s: Type %d, want %d", path, got.Type, want.Type)
	}
	if got.KeyType != want.KeyType {
		return fmt.Sprintf("%s (type %d): KeyType %d, want %d (key type is set only for maps, zero elsewhere)", path, got.Type, got.KeyType, want.KeyType)
	}
	if got.ValType != want.ValType {
		return fmt.Sprintf("%s (type %d): ValType %d, want %d (value/element type is set only for list/set/map, zero elsewhere)", path, got.Type, got.ValType, want.ValType)
	}
	switch want.Type {
	case ref.LIST, ref.SET, ref.MAP, ref.STRUCT:
		g, ok := got.Value.([]unknownfields.UnknownField)
		w := want.Value.([]unknownfields.UnknownField)
		if !ok && !(got.Value == nil && len(w) == 0) {
			return fmt.Sprintf("%s: Value has Go type %T, want []UnknownField", path, got.Value)
		}
		if len(g) != len(w) {
			return fmt.Sprintf("%s: %d members, want %d", path, len(g), len(w))
		}
		for i := range w {
			if d := c13Diff(fmt.Sprintf("%s/%d", path, i), g[i], w[i], want.Type == ref.STRUCT); d != "" {
				return d
			}
		}
	case ref.DOUBLE:
		g, ok := got.Value.(float64)
		if !ok || math.Float64bits(g) != math.Float64bits(want.Value.(float64)) {
			return fmt.Sprintf("%s: Value %v (%T), want %v (float64)", path, got.Value, got.Value, want.Value)
		}
	default:
		if got.Value != want.Value {
			return fmt.Sprintf("%s: Value %v (%T), want %v (%T)", path, got.Value, got.Value, want.Value, want.Value)
		}
	}
	return ""
}

func c13One(c *mc.Ctx, fields []ref.Field, desc string) {
	c13OneSpan(c, fields, desc)
	// the same with the span-cache allocator switched on (strings are then carved out of a shared 1 MiB span)
	thrift.SetSpanCache(true)
	c13OneSpan(c, fields, desc+" [span cache on]")
	thrift.SetSpanCache(false)
}

func c13OneSpan(c *mc.Ctx, fields []ref.Field, desc string) {
	c.Eval(1)
	var enc []byte
	for i := range fields {
		enc = ref.EncodeField(enc, fields[i].ID, &fields[i].V)
	}
	bad := func(class, format string, a ...interface{}) {
		c.Violate("uf", "C13|"+class, fmt.Sprintf("fields %s (%s): ", mc.Hex(enc), desc)+fmt.Sprintf(format, a...), c13Case{Hex: hex.EncodeToString(enc), Desc: desc})
	}
	c.Distinct(enc)
	pi := mc.Try(func() {
		in := append([]byte{}, enc...)
		tree, err := unknownfields.ConvertUnknownFields(in)
		for i := range in { // the caller reuses its buffer: the tree must not alias it
			in[i] = 0xEE
		}
		if err != nil {
			bad("convert-error", "ConvertUnknownFields failed on well-formed fields: %v", err)
			return
		}
		if len(tree) != len(fields) {
			bad("convert-tree", "converted to %d top-level fields, want %d", len(tree), len(fields))
			return
		}
		for i := range fields {
			if d := c13Diff(fmt.Sprintf("field#%d", i), tree[i], c13Expect(fields[i].ID, &fields[i].V), true); d != "" {
				bad("convert-tree", "converted tree differs from the encoded fields: %s", d)
				return
			}
		}
		n, err := unknownfields.UnknownFieldsLength(tree)
		if err != nil || n != len(enc) {
			bad("length", "UnknownFieldsLength = (%d, %v), the fields occupy %d bytes", n, err, len(enc))
			return
		}
		out := bytes.Repeat([]byte{0xCC}, len(enc)+8)
		w, err := unknownfields.WriteUnknownFields(out, tree)
		if err != nil || w != len(enc) {
			bad("write-length", "WriteUnknownFields = (%d, %v), want %d", w, err, len(enc))
			return
		}
		if !bytes.Equal(out[:w], enc) {
			bad("write-bytes", "writing the converted tree back does not reproduce the original bytes (first difference at +%d): got %s", firstDiff(out[:w], enc), mc.Hex(out[:w]))
			return
		}
		// conversely: the well-typed tree built by hand survives write-then-convert unchanged
		var hand []unknownfields.UnknownField
		for i := range fields {
			hand = append(hand, c13Expect(fields[i].ID, &fields[i].V))
		}
		hn, err := unknownfields.UnknownFieldsLength(hand)
		if err != nil || hn != len(enc) {
			bad("length", "UnknownFieldsLength of the hand-built tree = (%d, %v), want %d", hn, err, len(enc))
			return
		}
		out2 := make([]byte, hn)
		if w2, err := unknownfields.WriteUnknownFields(out2, hand); err != nil || w2 != hn || !bytes.Equal(out2, enc) {
			bad("write-bytes", "writing the hand-built tree gives (%d, %v) %s, want %s", w2, err, mc.Hex(out2), mc.Hex(enc))
			return
		}
		back, err := unknownfields.ConvertUnknownFields(out2)
		if err != nil || len(back) != len(hand) {
			bad("convert-error", "re-converting the written tree failed: %v", err)
			return
		}
		for i := range hand {
			if d := c13Diff(fmt.Sprintf("field#%d", i), back[i], hand[i], true); d != "" {
				bad("convert-tree", "tree -> bytes -> tree is not the identity: %s", d)
				return
			}
		}
	})
	if pi != nil {
		bad("panic", "panic: %s at %s", pi.Msg, pi.Frame)
	}
}

// ---- GetUnknownFields: the reflect entry point over every shape of carrier struct ----

type c13Plain struct {
	A              int64
	_unknownFields []byte
}
type c13Inner struct {
	N              string
	_unknownFields []byte
}
type c13EmbFirst struct {
	c13Inner
	Z int
}
type c13EmbLater struct {
	Pad [3]int64
	S   string
	c13Inner
}
type c13EmbPtr struct {
	Pad int64
	*c13Inner
}
type c13Deep struct {
	X uint16
	c13EmbLater
}
type c13NoField struct{ A int }

type c13GetCase struct {
	Kind int    `json:"carrier_kind"`
	Hex  string `json:"fields_hex"`
}

var c13Carriers = []string{"plain struct by value", "pointer to plain struct", "embedded first, by value", "embedded first, by pointer",
	"embedded at a non-zero offset, by value", "embedded at a non-zero offset, by pointer", "embedded pointer, by pointer", "embedded twice deep at non-zero offsets, by pointer",
	"embedded twice deep, by value", "no such field", "not a struct", "nil pointer"}

func c13Get(c *mc.Ctx, k c13GetCase) {
	c.Eval(1)
	enc, _ := hex.DecodeString(k.Hex)
	buf := append([]byte{}, enc...)
	other := []byte{0x0b, 0x00, 0x63, 0, 0, 0, 1, 'W'} // a decoy field list stored next to the real one
	var v interface{}
	wantErr := false
	switch k.Kind {
	case 0:
		v = c13Plain{A: 0x0102030405060708, _unknownFields: buf}
	case 1:
		v = &c13Plain{A: -1, _unknownFields: buf}
	case 2:
		v = c13EmbFirst{c13Inner: c13Inner{N: string(other), _unknownFields: buf}, Z: 5}
	case 3:
		v = &c13EmbFirst{c13Inner: c13Inner{N: string(other), _unknownFields: buf}, Z: 5}
	case 4:
		v = c13EmbLater{Pad: [3]int64{int64(len(other)), int64(len(other)), 8}, S: string(other), c13Inner: c13Inner{N: "n", _unknownFields: buf}}
	case 5:
		v = &c13EmbLater{Pad: [3]int64{int64(len(other)), int64(len(other)), 8}, S: string(other), c13Inner: c13Inner{N: "n", _unknownFields: buf}}
	case 6:
		v = &c13EmbPtr{Pad: 7, c13Inner: &c13Inner{N: string(other), _unknownFields: buf}}
	case 7:
		v = &c13Deep{X: 9, c13EmbLater: c13EmbLater{S: string(other), c13Inner: c13Inner{N: string(other), _unknownFields: buf}}}
	case 8:
		v = c13Deep{X: 9, c13EmbLater: c13EmbLater{S: string(other), c13Inner: c13Inner{N: string(other), _unknownFields: buf}}}
	case 9:
		v, wantErr = &c13NoField{1}, true
	case 10:
		v, wantErr = 42, true
	case 11:
		v, wantErr = (*c13Plain)(nil), true
	}
	bad := func(format string, a ...interface{}) {
		c.Violate("get", "C13|get-unknown-fields", fmt.Sprintf("GetUnknownFields on %s holding %s: ", c13Carriers[k.Kind], mc.Hex(enc))+fmt.Sprintf(format, a...), k)
	}
	var got []unknownfields.UnknownField
	var err error
	if pi := mc.Try(func() { got, err = unknownfields.GetUnknownFields(v) }); pi != nil {
		bad("panic: %s at %s", pi.Msg, pi.Frame)
		return
	}
	if wantErr {
		if err == nil {
			bad("no error (returned %d fields)", len(got))
		}
		return
	}
	want, werr := unknownfields.ConvertUnknownFields(append([]byte{}, enc...))
	if (err != nil) != (werr != nil) || len(got) != len(want) {
		bad("(%d fields, %v); ConvertUnknownFields on the same bytes gives (%d fields, %v)", len(got), err, len(want), werr)
		return
	}
	for i := range want {
		if d := c13Diff(fmt.Sprintf("field#%d", i), got[i], want[i], true); d != "" {
			bad("differs from ConvertUnknownFields on the same bytes: %s", d)
			return
		}
	}
	if !bytes.Equal(buf, enc) {
		bad("the stored bytes were modified")
	}
}

// ---- trees that share sub-trees: a Value slice attached to more than one node ----

type c13SharedCase struct {
	T     int8 `json:"shared_type"`
	Where int  `json:"where"` // 0: two top-level fields; 1: two fields of one struct; 2: twice in one list; 3: as two map values; 4: measured/written twice in a row
	N     int  `json:"members"`
}

func c13Shared(c *mc.Ctx, k c13SharedCase) {
	c.Eval(1)
	v := gen.Small(k.T, 1)
	switch k.T {
	case ref.LIST, ref.SET:
		v.L = nil
		for j := 0; j < k.N; j++ {
			v.L = append(v.L, gen.Small(v.Elem, j))
		}
	case ref.MAP:
		v.L = nil
		for j := 0; j < k.N; j++ {
			v.L = append(v.L, gen.Small(v.Key, j), gen.Small(v.Elem, j+1))
		}
	case ref.STRUCT:
		v.F = nil
		for j := 0; j < k.N; j++ {
			v.F = append(v.F, ref.Field{ID: int16(j + 1), V: gen.Small(ref.I32, j)})
		}
	}
	shared := c13Expect(1, &v)
	second := shared // same Value slice
	second.ID = 2
	var tree []unknownfields.UnknownField
	var want []byte
	switch k.Where {
	case 0, 4:
		tree = []unknownfields.UnknownField{shared, second}
		want = ref.EncodeField(ref.EncodeField(nil, 1, &v), 2, &v)
	case 1:
		tree = []unknownfields.UnknownField{{ID: 9, Type: ref.STRUCT, Value: []unknownfields.UnknownField{shared, second}}}
		outer := ref.Value{T: ref.STRUCT, F: []ref.Field{{ID: 1, V: v}, {ID: 2, V: v}}}
		want = ref.EncodeField(nil, 9, &outer)
	case 2:
		tree = []unknownfields.UnknownField{{ID: 9, Type: ref.LIST, ValType: k.T, Value: []unknownfields.UnknownField{shared, second, shared}}}
		outer := ref.Value{T: ref.LIST, Elem: k.T, L: []ref.Value{v, v, v}}
		want = ref.EncodeField(nil, 9, &outer)
	case 3:
		k1, k2 := gen.Small(ref.I16, 1), gen.Small(ref.I16, 2)
		tree = []unknownfields.UnknownField{{ID: 9, Type: ref.MAP, KeyType: ref.I16, ValType: k.T, Value: []unknownfields.UnknownField{c13Expect(0, &k1), shared, c13Expect(1, &k2), second}}}
		outer := ref.Value{T: ref.MAP, Key: ref.I16, Elem: k.T, L: []ref.Value{k1, v, k2, v}}
		want = ref.EncodeField(nil, 9, &outer)
	}
	bad := func(format string, a ...interface{}) {
		c.Violate("shared", "C13|shared-subtree", fmt.Sprintf("a well-typed acyclic tree in which one %s value of %d members is attached to two nodes (placement %d): ", map[int8]string{ref.LIST: "list", ref.SET: "set", ref.MAP: "map", ref.STRUCT: "struct"}[k.T], k.N, k.Where)+fmt.Sprintf(format, a...), k)
	}
	rounds := 1
	if k.Where == 4 {
		rounds = 3
	}
	pi := mc.Try(func() {
		for r := 0; r < rounds; r++ {
			n, err := unknownfields.UnknownFieldsLength(tree)
			if err != nil || n != len(want) {
				bad("UnknownFieldsLength (call %d) = (%d, %v), want %d", r+1, n, err, len(want))
				return
			}
			out := make([]byte, n+4)
			w, err := unknownfields.WriteUnknownFields(out, tree)
			if err != nil || w != n || !bytes.Equal(out[:w], want) {
				bad("WriteUnknownFields (call %d) = (%d, %v) %s, want %s", r+1, w, err, mc.Hex(out[:w]), mc.Hex(want))
				return
			}
		}
	})
	if pi != nil {
		bad("panic: %s at %s", pi.Msg, pi.Frame)
	}
}

// ---- a rejected (ill-typed) tree must leave nothing behind ----

type c13AfterCase struct {
	Bad   int `json:"bad_tree"` // which ill-typed tree is measured/written first
	Times int `json:"times"`    // how many times it is tried before the well-typed tree
}

// c13After: UnknownFieldsLength / WriteUnknownFields on an ill-typed tree (rejected with an error, or a panic the caller
// recovers from), then on a well-typed tree: the second must be exact, whatever state the first left behind.
func c13After(c *mc.Ctx, k c13AfterCase) {
	c.Eval(1)
	lst := gen.Small(ref.LIST, 2)
	stc := ref.Value{T: ref.STRUCT, F: []ref.Field{{ID: 1, V: gen.Small(ref.MAP, 1)}, {ID: 2, V: gen.Small(ref.STRING, 1)}}}
	goodL, goodS := c13Expect(1, &lst), c13Expect(2, &stc)
	unknownType := unknownfields.UnknownField{ID: 9, Type: 5, Value: int32(1)}                         // 5 is not a Thrift type
	wrongGoType := unknownfields.UnknownField{ID: 9, Type: ref.I32, Value: "a string in an i32 field"} // value of the wrong Go type
	var bad []unknownfields.UnknownField
	switch k.Bad {
	case 0: // containers pending before the bad field at top level
		bad = []unknownfields.UnknownField{goodL, goodS, unknownType}
	case 1: // bad field inside a struct that follows a container
		bad = []unknownfields.UnknownField{goodL, {ID: 3, Type: ref.STRUCT, Value: []unknownfields.UnknownField{goodS, unknownType, goodL}}, goodS}
	case 2: // bad element inside a list of structs
		bad = []unknownfields.UnknownField{{ID: 3, Type: ref.LIST, ValType: ref.STRUCT, Value: []unknownfields.UnknownField{{Type: ref.STRUCT, Value: []unknownfields.UnknownField{goodL, unknownType}}, {Type: ref.STRUCT, Value: []unknownfields.UnknownField{goodS}}}}, goodL}
	case 3:
		bad = []unknownfields.UnknownField{goodS, goodL, wrongGoType, goodS}
	}
	fields := []ref.Field{{ID: 1, V: lst}, {ID: 2, V: stc}, {ID: 3, V: gen.Small(ref.I64, 1)}}
	var want []byte
	var good []unknownfields.UnknownField
	for i := range fields {
		want = ref.EncodeField(want, fields[i].ID, &fields[i].V)
		good = append(good, c13Expect(fields[i].ID, &fields[i].V))
	}
	for t := 0; t < k.Times; t++ {
		mc.Try(func() { unknownfields.UnknownFieldsLength(bad) })
		mc.Try(func() { unknownfields.WriteUnknownFields(make([]byte, 4096), bad) })
	}
	pi := mc.Try(func() {
		for round := 0; round < 2; round++ {
			n, err := unknownfields.UnknownFieldsLength(good)
			out := make([]byte, len(want)+64)
			w, err2 := unknownfields.WriteUnknownFields(out, good)
			if err != nil || err2 != nil || n != len(want) || w != len(want) || !bytes.Equal(out[:w], want) {
				c.Violate("after", "C13|after-rejected-tree", fmt.Sprintf("after %d attempt(s) on an ill-typed tree (kind %d), a well-typed tree of %d bytes: UnknownFieldsLength = (%d, %v), WriteUnknownFields = (%d, %v) (call %d)", k.Times, k.Bad, len(want), n, err, w, err2, round+1), k)
				return
			}
		}
	})
	if pi != nil {
		c.Violate("after", "C13|after-rejected-tree", fmt.Sprintf("after an ill-typed tree (kind %d): panic on a well-typed tree: %s at %s", k.Bad, pi.Msg, pi.Frame), k)
	}
}

func c13Run(c *mc.Ctx) {
	setAllocCap(64 << 20)
	ids := []int16{1, -1, 0x7fff}
	// every generated tree as a single field
	trees := gen.Trees(true, 20)
	for ti := range trees {
		if !c.Mine() {
			continue
		}
		c13One(c, []ref.Field{{ID: ids[ti%3], V: trees[ti].V}}, "single field "+trees[ti].Name)
	}
	c.Done(fmt.Sprintf("every one of the %d generated value trees as a single field", len(trees)))
	// sequences of <= 3 top-level fields over one representative per type
	reps := make([]ref.Value, len(ref.T11))
	for i, t := range ref.T11 {
		reps[i] = gen.Small(t, i)
	}
	n := len(reps)
	for a := 0; a < n; a++ {
		for b := -1; b < n; b++ {
			for d := -1; d < n; d++ {
				if b < 0 && d >= 0 {
					continue
				}
				if !c.Mine() {
					continue
				}
				fs := []ref.Field{{ID: 1, V: reps[a]}}
				if b >= 0 {
					fs = append(fs, ref.Field{ID: -1, V: reps[b]})
				}
				if d >= 0 {
					fs = append(fs, ref.Field{ID: 0x7fff, V: reps[d]})
				}
				c13One(c, fs, "top-level sequence")
			}
		}
	}
	c.Done("all sequences of <= 3 top-level fields over one representative per type")
	// inside a nested struct: all ordered pairs (and triples) of field types — a stale tag of one field may leak into the next
	for a := 0; a < n; a++ {
		for b := 0; b < n; b++ {
			for d := -1; d < n; d++ {
				if !c.Mine() {
					continue
				}
				in := ref.Value{T: ref.STRUCT, F: []ref.Field{{ID: 1, V: reps[a]}, {ID: 2, V: reps[b]}}}
				if d >= 0 {
					in.F = append(in.F, ref.Field{ID: 3, V: reps[d]})
				}
				c13One(c, []ref.Field{{ID: 5, V: in}}, "fields inside a nested struct")
				// the same struct inside containers
				if d < 0 {
					c13One(c, []ref.Field{{ID: 6, V: ref.Value{T: ref.LIST, Elem: ref.STRUCT, L: []ref.Value{in, in}}}}, "nested struct inside a list")
					c13One(c, []ref.Field{{ID: 7, V: ref.Value{T: ref.MAP, Key: ref.I32, Elem: ref.STRUCT, L: []ref.Value{gen.Small(ref.I32, 0), in}}}}, "nested struct as a map value")
				}
			}
		}
	}
	c.Sample("nested", c13Case{Hex: "0c00050d0001080a000000000800020000000700", Desc: "struct{1: map<i32,i64>{}, 2: i32}"})
	c.Done("inside nested structs: all 121 ordered pairs and all 1331 triples of field types; the struct inside a list and as a map value")
	// containers of every element type with empty containers of differing key/value types
	for _, kt := range ref.T11 {
		for _, vt := range ref.T11 {
			if !c.Mine() {
				continue
			}
			em := ref.Value{T: ref.MAP, Key: kt, Elem: vt, L: []ref.Value{}}
			c13One(c, []ref.Field{{ID: 1, V: em}, {ID: 2, V: ref.Value{T: ref.LIST, Elem: ref.MAP, L: []ref.Value{em, em}}}}, "empty maps of every key/value type")
			el := ref.Value{T: ref.LIST, Elem: kt, L: []ref.Value{}}
			c13One(c, []ref.Field{{ID: 1, V: ref.Value{T: ref.SET, Elem: ref.LIST, L: []ref.Value{el}}}, {ID: 2, V: ref.Value{T: ref.STRUCT, F: []ref.Field{{ID: 1, V: el}, {ID: 2, V: em}}}}}, "empty lists/sets of every element type")
		}
	}
	// inside a nested struct: a container of every element type followed by a container of every other element type and a
	// scalar (the representatives above fix ONE element type per container kind); and map<ta,tb> followed by list<tc>
	for _, ta := range ref.T11 {
		for _, tb := range ref.T11 {
			if !c.Mine() {
				continue
			}
			la := ref.Value{T: ref.LIST, Elem: ta, L: []ref.Value{gen.Small(ta, 1)}}
			sb := ref.Value{T: ref.SET, Elem: tb, L: []ref.Value{gen.Small(tb, 2), gen.Small(tb, 3)}}
			c13One(c, []ref.Field{{ID: 5, V: ref.Value{T: ref.STRUCT, F: []ref.Field{{ID: 1, V: la}, {ID: 2, V: sb}, {ID: 3, V: gen.Small(ref.I32, 4)}, {ID: 4, V: gen.Small(ref.STRING, 5)}}}}}, "list<a>, set<b>, scalar, string inside a nested struct")
			c13One(c, []ref.Field{{ID: 1, V: sb}, {ID: 2, V: la}, {ID: 3, V: gen.Small(ref.I64, 4)}}, "set<b>, list<a>, scalar at the top level")
			for _, tc := range ref.T11 {
				mab := ref.Value{T: ref.MAP, Key: ta, Elem: tb, L: []ref.Value{gen.Small(ta, 1), gen.Small(tb, 2)}}
				lc := ref.Value{T: ref.LIST, Elem: tc, L: []ref.Value{gen.Small(tc, 3)}}
				c13One(c, []ref.Field{{ID: 5, V: ref.Value{T: ref.STRUCT, F: []ref.Field{{ID: 1, V: mab}, {ID: 2, V: lc}, {ID: 3, V: gen.Small(ref.BYTE, 4)}}}}}, "map<a,b>, list<c>, scalar inside a nested struct")
			}
		}
	}
	c.Done("inside nested structs: list<a>,set<b>,scalar,string for all 121 (a,b); map<a,b>,list<c>,scalar for all 1331 (a,b,c)")
	// containers whose members have different encoded sizes
	for _, et := range []int8{ref.SET, ref.LIST, ref.MAP, ref.STRUCT, ref.STRING} {
		if !c.Mine() {
			continue
		}
		var l []ref.Value
		for i := 0; i < 4; i++ {
			m := gen.Small(et, i)
			switch et {
			case ref.SET, ref.LIST:
				for j := 0; j < i; j++ {
					m.L = append(m.L, gen.Small(m.Elem, j+2))
				}
			case ref.STRING:
				m.S = bytes.Repeat([]byte{'x'}, i*3)
			case ref.STRUCT:
				for j := 0; j < i; j++ {
					m.F = append(m.F, ref.Field{ID: int16(10 + j), V: gen.Small(ref.I64, j)})
				}
			}
			l = append(l, m)
		}
		c13One(c, []ref.Field{{ID: 1, V: ref.Value{T: ref.LIST, Elem: et, L: l}}, {ID: 2, V: ref.Value{T: ref.SET, Elem: et, L: l}}}, "members of different encoded sizes")
		c13One(c, []ref.Field{{ID: 3, V: ref.Value{T: ref.MAP, Key: ref.I16, Elem: et, L: []ref.Value{gen.Small(ref.I16, 0), l[0], gen.Small(ref.I16, 1), l[3]}}}}, "map values of different encoded sizes")
	}
	// different strings of equal length that collide under widely used 32-bit hashes, next to each other in one buffer
	// (an interning table or cache that compares too little on a hit confuses them)
	for pi, pr := range gen.CollisionPairs() {
		if !c.Mine() {
			continue
		}
		a, b := strV(pr[0]), strV(pr[1])
		c.Distinct("collide", pi)
		c13One(c, []ref.Field{{ID: 1, V: a}, {ID: 2, V: b}, {ID: 3, V: a}}, "strings colliding under a common hash, as fields")
		c13One(c, []ref.Field{{ID: 1, V: ref.Value{T: ref.LIST, Elem: ref.STRING, L: []ref.Value{a, b, b, a}}}, {ID: 2, V: ref.Value{T: ref.SET, Elem: ref.STRING, L: []ref.Value{b, a}}}}, "strings colliding under a common hash, in a list and a set")
		c13One(c, []ref.Field{{ID: 1, V: ref.Value{T: ref.MAP, Key: ref.STRING, Elem: ref.STRING, L: []ref.Value{a, b, b, a}}}, {ID: 2, V: ref.Value{T: ref.STRUCT, F: []ref.Field{{ID: 1, V: b}, {ID: 2, V: a}}}}}, "strings colliding under a common hash, as map keys/values and in a nested struct")
	}
	// element counts around 2^15 (lists/sets) and 2^14 (maps: two slots per entry)
	for _, n := range []int{32767, 32768, 32769, 40000, 65536} {
		if !c.Mine() {
			continue
		}
		l := ref.Value{T: ref.LIST, Elem: ref.BYTE}
		st := ref.Value{T: ref.SET, Elem: ref.I16}
		for i := 0; i < n; i++ {
			l.L = append(l.L, ref.Value{T: ref.BYTE, I: uint64(i & 0xff)})
			st.L = append(st.L, ref.Value{T: ref.I16, I: uint64(i & 0xffff)})
		}
		c13One(c, []ref.Field{{ID: 1, V: l}}, fmt.Sprintf("list of %d elements", n))
		c13One(c, []ref.Field{{ID: 2, V: st}}, fmt.Sprintf("set of %d elements", n))
		m := ref.Value{T: ref.MAP, Key: ref.BOOL, Elem: ref.BYTE}
		for i := 0; i < n/2+1; i++ {
			m.L = append(m.L, ref.Value{T: ref.BOOL, I: uint64(i & 1)}, ref.Value{T: ref.BYTE, I: uint64(i & 0xff)})
		}
		c13One(c, []ref.Field{{ID: 3, V: m}}, fmt.Sprintf("map of %d entries", n/2+1))
	}
	// doubles are bit patterns: +0 next to -0, NaNs with different payloads, equal neighbours
	if c.Mine() {
		bits := []uint64{0, 0x8000000000000000, 0, 0, 0x8000000000000000, 0x8000000000000000, 0x7ff8000000000001, 0x7ff8000000000002, 0x7ff0000000000000, 0xfff0000000000000, 0x3ff0000000000000, 0x3ff0000000000000, 1, 0}
		l := ref.Value{T: ref.LIST, Elem: ref.DOUBLE}
		m := ref.Value{T: ref.MAP, Key: ref.DOUBLE, Elem: ref.DOUBLE}
		for i, x := range bits {
			l.L = append(l.L, ref.Value{T: ref.DOUBLE, I: x})
			m.L = append(m.L, ref.Value{T: ref.DOUBLE, I: x}, ref.Value{T: ref.DOUBLE, I: bits[(i+1)%len(bits)]})
		}
		st := l
		st.T = ref.SET
		c13One(c, []ref.Field{{ID: 1, V: l}, {ID: 2, V: st}, {ID: 3, V: m}, {ID: 4, V: ref.Value{T: ref.DOUBLE, I: 0x8000000000000000}}, {ID: 5, V: ref.Value{T: ref.DOUBLE, I: 0}}}, "doubles as bit patterns (+0/-0 neighbours, NaN payloads)")
		for _, t := range []int8{ref.I16, ref.I32, ref.I64, ref.BYTE, ref.BOOL} { // equal and sign-flipped neighbours of the other scalars
			il := ref.Value{T: ref.LIST, Elem: t}
			for _, x := range []uint64{0, 0, 1, 1, 0xff, 0xff, 0x8000, 0x8000, 0x80000000, 0x80000000, 0} {
				if t == ref.BOOL {
					x &= 1
				}
				il.L = append(il.L, ref.Value{T: t, I: x & map[int8]uint64{ref.BYTE: 0xff, ref.BOOL: 1, ref.I16: 0xffff, ref.I32: 0xffffffff, ref.I64: ^uint64(0)}[t]})
			}
			c13One(c, []ref.Field{{ID: 1, V: il}}, "equal neighbours in a scalar list")
		}
	}
	c.Done("empty containers of all 121 key/value type pairs; containers whose members differ in encoded size; element counts 32767..65536; doubles as bit patterns")
	// wide and shallow: many (empty and non-empty) containers in one message, far more than any nesting limit
	for _, rows := range []int{63, 64, 65, 66, 129, 300, 5000} {
		if !c.Mine() {
			continue
		}
		for variant := 0; variant < 3; variant++ {
			row := ref.Value{T: ref.STRUCT, F: []ref.Field{{ID: 1, V: gen.Small(ref.I64, 3)}}}
			switch variant {
			case 0: // one empty optional collection per row
				row.F = append(row.F, ref.Field{ID: 2, V: ref.Value{T: ref.LIST, Elem: ref.STRING, L: []ref.Value{}}})
			case 1:
				row.F = append(row.F, ref.Field{ID: 2, V: ref.Value{T: ref.MAP, Key: ref.STRING, Elem: ref.I32, L: []ref.Value{}}}, ref.Field{ID: 3, V: ref.Value{T: ref.SET, Elem: ref.I16, L: []ref.Value{}}})
			case 2:
				row.F = append(row.F, ref.Field{ID: 2, V: ref.Value{T: ref.LIST, Elem: ref.I16, L: []ref.Value{gen.Small(ref.I16, 1)}}}, ref.Field{ID: 3, V: ref.Value{T: ref.STRUCT}})
			}
			l := ref.Value{T: ref.LIST, Elem: ref.STRUCT}
			var flat []ref.Field
			for i := 0; i < rows; i++ {
				l.L = append(l.L, row)
				flat = append(flat, ref.Field{ID: int16(i + 1), V: row.F[1].V})
			}
			c13One(c, []ref.Field{{ID: 1, V: l}}, fmt.Sprintf("list of %d rows, variant %d", rows, variant))
			c13One(c, flat, fmt.Sprintf("%d top-level containers, variant %d", rows, variant))
		}
	}
	c.Done("wide shallow messages: 63..5000 rows / top-level fields each carrying empty or one-element containers")
	// shared sub-trees
	for _, t := range []int8{ref.LIST, ref.SET, ref.MAP, ref.STRUCT} {
		for where := 0; where <= 4; where++ {
			for _, n := range []int{0, 1, 3} {
				if c.Mine() {
					c.Distinct("shared", t, where, n)
					c13Shared(c, c13SharedCase{T: t, Where: where, N: n})
				}
			}
		}
	}
	c.Done("hand-built acyclic trees sharing one list/set/map/struct value between two nodes (5 placements x 0/1/3 members), measured and written up to 3 times")
	// state left behind by a rejected tree
	if c.Shard == 0 {
		for bk := 0; bk < 4; bk++ {
			for _, times := range []int{1, 2, 5} {
				c.Distinct("after", bk, times)
				c13After(c, c13AfterCase{Bad: bk, Times: times})
			}
		}
		c.Done("a well-typed tree measured and written right after 1/2/5 attempts on 4 ill-typed trees (unknown type tag / wrong Go type, after pending containers)")
	}
	// the reflect entry point
	getHex := []string{"0800010000002a", "0b0002000000026869" + "0f00030600000002" + "00010002", "0d00040b0800000001000000016b0000002a" + "0c0005" + "02000101" + "00"}
	for kind := range c13Carriers {
		for _, hx := range getHex {
			if c.Mine() {
				c.Distinct("get", kind, hx)
				c13Get(c, c13GetCase{Kind: kind, Hex: hx})
			}
		}
	}
	c.Done(fmt.Sprintf("GetUnknownFields over %d carrier shapes (by value / by pointer, the field promoted from structs embedded at offset 0, at non-zero offsets, twice deep, through a pointer; no field; not a struct; nil) x 3 field lists, against ConvertUnknownFields on the same bytes", len(c13Carriers)))
}

func init() {
	Register(&Check{
		ID: "C13", Level: "exploration",
		Rule:        "every generated value tree as a single field; all sequences of <= 3 top-level fields over one representative per type; inside nested structs all 121 ordered pairs and 1331 triples of field types (also inside a list and as a map value); empty containers of all 121 key/value type pairs; members of different sizes; ids {1,-1,0x7fff}; both directions (bytes -> tree -> bytes and tree -> bytes -> tree); wide shallow messages (63..5000 containers); trees sharing sub-trees; GetUnknownFields over 12 carrier shapes; distinct = distinct field encodings",
		Assumptions: []string{"bool bytes are canonical (0/1); ids of list/set/map members are not on the wire and are not compared; nil and empty member lists are equivalent"},
		Run:         c13Run,
		Replay: func(c *mc.Ctx, sub string, raw json.RawMessage) {
			if sub == "get" {
				replayAs(raw, func(k c13GetCase) { c13Get(c, k) })
				return
			}
			if sub == "after" {
				replayAs(raw, func(k c13AfterCase) { c13After(c, k) })
				return
			}
			if sub == "shared" {
				replayAs(raw, func(k c13SharedCase) { c13Shared(c, k) })
				return
			}
			replayAs(raw, func(k c13Case) {
				enc, _ := hex.DecodeString(k.Hex)
				setAllocCap(64 << 20)
				// re-parse the recorded bytes as a field sequence with the reference decoder
				wrapped := append(append([]byte{}, enc...), 0)
				v, _, ok := ref.Decode(wrapped, ref.STRUCT)
				if !ok {
					panic("replay: recorded fields are not well-formed")
				}
				c13One(c, v.F, strings.TrimSuffix(k.Desc, " [span cache on]"))
			})
		},
	})
}
