package checks

import (
	"bytes"
	"context"
	"encoding/json"
	"fmt"
	bdspan "github.com/bytedance/gopkg/lang/span"
	"github.com/cloudwego/gopkg/container/strmap"
	"hash/fnv"
	"strings"

	"github.com/bytedance/gopkg/lang/mcache"
	"github.com/cloudwego/gopkg/bufiox"
	"github.com/cloudwego/gopkg/protocol/thrift"
	"github.com/cloudwego/gopkg/protocol/thrift/base"
	"github.com/cloudwego/gopkg/protocol/ttheader"
	vatomic "github.com/cloudwego/gopkg/verifshim/vatomic"
	vsync "github.com/cloudwego/gopkg/verifshim/vsync"

	"verif/mc"
	"verif/ref"
	"verif/vdump"
)

// C14 — concurrent use: separate instances are isolated (controlled-scheduler part).
// Thread bodies run create/use/release cycles of every pooled type with self-identifying payloads;
// the scheduler enumerates all interleavings up to a preemption bound at the points where
// instances touch shared state (object pools, buffer pool, span try-lock, source/sink IO).
// Oracle: each thread's observation log equals the log of the same body run alone; pool
// ownership audit; objects are never used or written after they were returned to their pool.

type obsLog struct{ lines []string }

func (l *obsLog) add(format string, a ...interface{}) {
	l.lines = append(l.lines, fmt.Sprintf(format, a...))
}

func digest(b []byte) string {
	h := fnv.New64a()
	h.Write(b)
	return fmt.Sprintf("%d:%016x", len(b), h.Sum64())
}

// stamped payload: every byte carries the thread's stamp in its high nibble
func stamped(stamp, n, salt int) []byte {
	b := make([]byte, n)
	for i := range b {
		b[i] = byte(stamp<<4 | (i+salt)%13)
	}
	return b
}

func foreignByte(b []byte, stamp int) int {
	for i, x := range b {
		if int(x>>4) != stamp {
			return i
		}
	}
	return -1
}

// expect renders a comparison with the value the body itself knows must come back.
func expect(got, want []byte) string {
	if bytes.Equal(got, want) {
		return "ok=true"
	}
	return fmt.Sprintf("ok=false (got %s want %s, first difference at +%d)", digest(got), digest(want), firstDiff(got, want))
}

type c14Env struct {
	s *mc.Sched
}

func (e *c14Env) reader(d []byte, chunk int) *EnvReader {
	r := NewEnvReader(d, EnvCfg{Chunk: chunk})
	r.Hook = func() { e.s.Point("src.Read") }
	return r
}

func (e *c14Env) writer() *EnvWriter {
	w := &EnvWriter{}
	w.Hook = func() { e.s.Point("sink.Write") }
	return w
}

// ---- thread bodies ----

func c14BodyR(e *c14Env, stamp int, l *obsLog) {
	for round := 0; round < 2; round++ {
		s1, b1 := stamped(stamp, 20, round), stamped(stamp, 5000, round+3)
		var in []byte
		in = ref.Encode(in, &ref.Value{T: ref.STRING, S: s1})
		in = ref.Encode(in, &ref.Value{T: ref.I32, I: uint64(stamp*1000 + round)})
		in = ref.Encode(in, &ref.Value{T: ref.STRING, S: b1})
		r := bufiox.NewDefaultReader(e.reader(in, 4096))
		br := thrift.NewBufferReader(r)
		s, err := br.ReadString()
		l.add("R%d ReadString %s %v %s", round, digest([]byte(s)), err, expect([]byte(s), s1))
		i, err := br.ReadI32()
		l.add("R%d ReadI32 %d %v", round, i, err)
		peek, _ := r.Peek(8) // zero-copy slice retained across the growth below
		keep := append([]byte{}, peek...)
		b, err := br.ReadBinary()
		l.add("R%d ReadBinary %s %v %s", round, digest(b), err, expect(b, b1))
		l.add("R%d peeked-slice-intact ok=%v", round, bytes.Equal(peek, keep))
		br.Recycle()
		r.Release(nil)
	}
}

func c14BodyW(e *c14Env, stamp int, l *obsLog) {
	for round := 0; round < 2; round++ {
		sink := e.writer()
		w := bufiox.NewDefaultWriter(sink)
		bw := thrift.NewBufferWriter(w)
		var pre []byte
		if round == 1 {
			// the buffer is almost full when the region is reserved: this Malloc itself makes the writer grow
			pre = stamped(stamp, 4050, 9)
			w.WriteBinary(pre)
		}
		bw.WriteString(string(stamped(stamp, 30, round)))
		bw.WriteI32(int32(stamp*100 + round))
		region, _ := w.Malloc(16) // filled late, after the growth below
		var raw []byte
		if round == 1 {
			// only WriteBinary after the reservation (no further Malloc), and it makes the writer grow once more
			raw = stamped(stamp, 9000, 11)
			w.WriteBinary(raw)
		} else {
			bw.WriteBinary(stamped(stamp, 5000, round+1))
		}
		copy(region, stamped(stamp, 16, 7))
		err := w.Flush()
		bw.Recycle()
		want := append([]byte{}, pre...)
		want = ref.Encode(want, &ref.Value{T: ref.STRING, S: stamped(stamp, 30, round)})
		want = ref.Encode(want, &ref.Value{T: ref.I32, I: uint64(uint32(int32(stamp*100 + round)))})
		want = append(want, stamped(stamp, 16, 7)...)
		if round == 1 {
			want = append(want, raw...)
		} else {
			want = ref.Encode(want, &ref.Value{T: ref.STRING, S: stamped(stamp, 5000, round+1)})
		}
		l.add("W%d sink %s %v %s", round, digest(sink.Got), err, expect(sink.Got, want))
	}
}

// the writer's stream interleaves length prefixes (zero high nibble) with stamped payload; only payload bytes >= 0x10 are checked
func foreignStamp(b []byte, stamp int) int {
	for i, x := range b {
		if x >= 0x10 && int(x>>4) != stamp {
			return i
		}
	}
	return -1
}

func c14Values(stamp, round int) (small, big ref.Value) {
	small = ref.Value{T: ref.STRUCT, F: []ref.Field{{ID: 1, V: ref.Value{T: ref.STRING, S: stamped(stamp, 9, round)}}, {ID: 2, V: ref.Value{T: ref.I64, I: uint64(stamp)}}}}
	big = ref.Value{T: ref.STRING, S: stamped(stamp, 5000, round+5)}
	return
}

func c14BodyS1(e *c14Env, stamp int, l *obsLog) {
	for round := 0; round < 2; round++ {
		small, big := c14Values(stamp, round)
		in := ref.Encode(ref.Encode(nil, &small), &big)
		r := bufiox.NewDefaultReader(e.reader(in, 4096))
		d := thrift.NewSkipDecoder(r)
		e1, e2 := ref.Encode(nil, &small), ref.Encode(nil, &big)
		b1, err := d.Next(thrift.STRUCT)
		l.add("S1.%d Next(struct) %s %v %s", round, digest(b1), err, expect(b1, e1))
		b2, err := d.Next(thrift.STRING)
		l.add("S1.%d Next(string) %s %v %s", round, digest(b2), err, expect(b2, e2))
		l.add("S1.%d first-result-still-valid %s", round, expect(b1, e1)) // results live until Release
		d.Release()
		r.Release(nil)
	}
}

func c14BodyS2(e *c14Env, stamp int, l *obsLog) {
	for round := 0; round < 2; round++ {
		small, big := c14Values(stamp, round)
		in := ref.Encode(ref.Encode(nil, &small), &big)
		d := thrift.NewBytesSkipDecoder(in)
		e1, e2 := ref.Encode(nil, &small), ref.Encode(nil, &big)
		b1, err := d.Next(thrift.STRUCT)
		l.add("S2.%d Next(struct) %s %v %s", round, digest(b1), err, expect(b1, e1))
		e.s.Point("yield")
		b2, err := d.Next(thrift.STRING)
		l.add("S2.%d Next(string) %s %v %s", round, digest(b2), err, expect(b2, e2))
		d.Release()
	}
}

func c14BodyS3(e *c14Env, stamp int, l *obsLog) {
	for round := 0; round < 2; round++ {
		small, big := c14Values(stamp, round)
		in := ref.Encode(ref.Encode(nil, &small), &big)
		d := thrift.NewReaderSkipDecoder(e.reader(in, 3000))
		e1, e2 := ref.Encode(nil, &small), ref.Encode(nil, &big)
		b1, err := d.Next(thrift.STRUCT)
		l.add("S3.%d Next(struct) %s %v %s", round, digest(b1), err, expect(b1, e1))
		b2, err := d.Next(thrift.STRING)
		l.add("S3.%d Next(string) %s %v %s", round, digest(b2), err, expect(b2, e2))
		d.Release()
	}
}

func c14BodyH(e *c14Env, stamp int, l *obsLog) {
	ctx := context.Background()
	sink := e.writer()
	w := bufiox.NewDefaultWriter(sink)
	p := ttheader.EncodeParam{Flags: ttheader.HeaderFlags(stamp), SeqID: int32(stamp * 77), StrInfo: map[string]string{"who": string(stamped(stamp, 40, 1))}, IntInfo: map[uint16]string{1: string(stamped(stamp, 4200, 2))}}
	_, err := ttheader.Encode(ctx, p, w)
	err2 := w.Flush()
	l.add("H encode %v %v %d", err, err2, len(sink.Got))
	r := bufiox.NewDefaultReader(e.reader(sink.Got, 1000))
	d, err := ttheader.Decode(ctx, r)
	l.add("H decode %v flags=%d seq=%d who %s int1 %s", err, d.Flags, d.SeqID, expect([]byte(d.StrInfo["who"]), stamped(stamp, 40, 1)), expect([]byte(d.IntInfo[1]), stamped(stamp, 4200, 2)))
	r.Next(r.ReadLen() * 0) // header fully consumed
	r.Release(nil)
	e.s.Point("yield")
	// the decoded parameters outlive the reader's buffer
	l.add("H after-release who %s int1 %s", expect([]byte(d.StrInfo["who"]), stamped(stamp, 40, 1)), expect([]byte(d.IntInfo[1]), stamped(stamp, 4200, 2)))
}

// HG: two goroutines encode with the SAME parameter maps (a server stamping every response with the same metadata);
// Encode treats its input as read-only at every moment.
var c14SharedStr = map[string]string{ttheader.GDPRToken: "shared-token", "who": "everybody"}
var c14SharedInt = map[uint16]string{3: "three"}

func c14BodyHG(e *c14Env, stamp int, l *obsLog) {
	ctx := context.Background()
	for round := 0; round < 2; round++ {
		sink := e.writer()
		w := bufiox.NewDefaultWriter(sink)
		p := ttheader.EncodeParam{Flags: ttheader.HeaderFlags(stamp), SeqID: int32(stamp*7 + round), StrInfo: c14SharedStr, IntInfo: c14SharedInt}
		_, err := ttheader.Encode(ctx, p, w)
		err2 := w.Flush()
		d, err3 := ttheader.DecodeFromBytes(ctx, sink.Got)
		l.add("HG%d encode %v %v decode %v seq=%d token=%q who=%q three=%q entries=%d/%d", round, err, err2, err3, d.SeqID, d.StrInfo[ttheader.GDPRToken], d.StrInfo["who"], d.IntInfo[3], len(d.StrInfo), len(d.IntInfo))
		l.add("HG%d shared-maps-intact ok=%v", round, len(c14SharedStr) == 2 && c14SharedStr[ttheader.GDPRToken] == "shared-token" && len(c14SharedInt) == 1)
	}
}

func c14BodyB(e *c14Env, stamp int, l *obsLog) {
	var kept []string
	var want [][]byte
	for i := 0; i < 3; i++ {
		v := stamped(stamp, 200+i*300, i)
		in := ref.Encode(nil, &ref.Value{T: ref.STRING, S: v})
		s, _, err := thrift.Binary.ReadString(in)
		b, _, err2 := thrift.Binary.ReadBinary(in)
		l.add("B%d %s %s %v %v", i, digest([]byte(s)), digest(b), err, err2)
		kept = append(kept, s, string(b))
		want = append(want, v, v)
		for j := range in { // the input is reused at once
			in[j] = 0xEE
		}
	}
	ok := true
	for i := range kept {
		if kept[i] != string(want[i]) {
			ok = false
		}
	}
	l.add("B retained-values-intact ok=%v", ok)
}

// P: a slice peeked at position 0 is retained while a larger request grows the buffer (ri == 0 at the growth).
func c14BodyP(e *c14Env, stamp int, l *obsLog) {
	for round := 0; round < 2; round++ {
		data := stamped(stamp, 6000, round)
		r := bufiox.NewDefaultReader(e.reader(data, 4096))
		p1, err := r.Peek(8)
		if round == 1 {
			// look-ahead only: the buffer grows while nothing is consumed, and the reader is released in that state
			_, perr := r.Peek(5000)
			r.Release(nil)
			p1, err = r.Peek(8)
			l.add("P%d peek-only growth, Release %v", round, perr)
		}
		keep := append([]byte{}, p1...)
		b, err2 := r.Next(5000)
		l.add("P%d Peek/Next %v %v %s", round, err, err2, expect(b, data[:5000]))
		e.s.Point("yield")
		l.add("P%d peeked-slice-still-valid %s", round, expect(p1, keep))
		l.add("P%d next-slice-still-valid %s", round, expect(b, data[:5000]))
		r.Release(nil)
	}
}

// S1e: a decoder that fails in the middle of a value (truncated stream) and is released; then a normal cycle.
func c14BodyS1e(e *c14Env, stamp int, l *obsLog) {
	small, big := c14Values(stamp, 0)
	full := ref.Encode(ref.Encode(nil, &small), &big)
	r0 := bufiox.NewDefaultReader(e.reader(full[:len(full)-100], 4096))
	d0 := thrift.NewSkipDecoder(r0)
	_, err0 := d0.Next(thrift.STRUCT)
	_, err1 := d0.Next(thrift.STRING)
	l.add("S1e truncated %v failed=%v", err0, err1 != nil)
	d0.Release()
	r0.Release(nil)
	rd := thrift.NewReaderSkipDecoder(e.reader(full[:len(full)-100], 3000))
	_, _ = rd.Next(thrift.STRUCT)
	_, err2 := rd.Next(thrift.STRING)
	l.add("S1e reader-decoder truncated failed=%v", err2 != nil)
	rd.Release()
	c14BodyS1(e, stamp, l)
}

// S3big: a value above 64 KiB through the io.Reader decoder (its scratch buffer changes size class), twice.
func c14BodyS3big(e *c14Env, stamp int, l *obsLog) {
	for round := 0; round < 2; round++ {
		big := ref.Value{T: ref.STRING, S: stamped(stamp, 70000, round)}
		enc := ref.Encode(nil, &big)
		d := thrift.NewReaderSkipDecoder(e.reader(enc, 40000))
		b, err := d.Next(thrift.STRING)
		l.add("S3big.%d %v %s", round, err, expect(b, enc))
		d.Release()
		// an unrelated allocation of the same size class by the same thread, then the decoder again
		w := bufiox.NewDefaultWriter(e.writer())
		m, _ := w.Malloc(70000)
		copy(m, stamped(stamp, 70000, 9))
		d2 := thrift.NewReaderSkipDecoder(e.reader(enc[:30], 40000))
		_, _ = d2.Next(thrift.STRING)
		d2.Release()
		l.add("S3big.%d writer-region-intact %s", round, expect(m, stamped(stamp, 70000, 9)))
		w.Flush()
	}
}

// BW: a bytes writer over a caller-owned scratch buffer of power-of-two capacity that the message outgrows;
// afterwards the caller reuses its scratch buffer.
func c14BodyBW(e *c14Env, stamp int, l *obsLog) {
	scratch := make([]byte, 0, 4096)
	for round := 0; round < 2; round++ {
		target := scratch[:0]
		w := bufiox.NewBytesWriter(&target)
		msg := stamped(stamp, 5000, round)
		m, _ := w.Malloc(8)
		copy(m, msg[:8])
		w.WriteBinary(msg[8:])
		err := w.Flush()
		l.add("BW%d flush %v %s", round, err, expect(target, msg))
		own := stamped(stamp, 4096, 40+round)
		copy(scratch[:4096], own)
		e.s.Point("yield")
		l.add("BW%d caller-scratch-intact %s", round, expect(scratch[:4096], own))
		l.add("BW%d target-intact %s", round, expect(target, msg))
	}
}

// BR: a bytes reader over a caller-owned slice of power-of-two capacity; a read beyond the end fails; Release;
// afterwards the caller's slice is still the caller's.
func c14BodyBR(e *c14Env, stamp int, l *obsLog) {
	for round := 0; round < 2; round++ {
		data := stamped(stamp, 4096, round)
		keep := append([]byte{}, data...)
		r := bufiox.NewBytesReader(data)
		b, err := r.Next(100)
		l.add("BR%d next %v %s", round, err, expect(b, keep[:100]))
		_, err = r.Next(5000) // more than the slice holds
		l.add("BR%d over-read failed=%v", round, err != nil)
		r.Release(nil)
		e.s.Point("yield")
		l.add("BR%d caller-slice-intact %s", round, expect(data, keep))
	}
}

// E: error paths share package-level sentinel errors; the text of an error must not depend on what happened before.
func c14BodyE(e *c14Env, stamp int, l *obsLog) {
	st := baseStruct(string(stamped(stamp, 10, 0)), "c", "a", nil)
	enc := ref.Encode(nil, &st)
	var texts []string
	for round := 0; round < 3; round++ {
		var b base.Base
		_, err := b.FastRead(enc[:len(enc)-7])
		e.s.Point("yield")
		if err == nil {
			l.add("E%d truncated input accepted ok=false", round)
			continue
		}
		texts = append(texts, err.Error())
		_, err2 := thrift.Binary.Skip(enc[:5], thrift.STRUCT)
		l.add("E%d %d-byte error text; skip error %q", round, len(err.Error()), fmt.Sprint(err2))
	}
	same := true
	for _, t := range texts {
		if t != texts[0] {
			same = false
		}
	}
	l.add("E same-error-text-every-time ok=%v", same)
}

// c14Direct is a direct writer (no-copy path) whose WriteDirect is a scheduling point: the library calls out of its
// encoding loop here, so another goroutine can run in the middle of an encode.
type c14Direct struct {
	e    *c14Env
	buf  []byte
	recs []directRec
}

func (w *c14Direct) WriteDirect(b []byte, remainCap int) error {
	w.e.s.Point("direct.Write")
	w.recs = append(w.recs, directRec{b: b, remainCap: remainCap})
	return nil
}

// BE: encode a Base / BaseResp with a map of large values through the no-copy path (twice), splice and compare with
// the reference encoding (maps compared as sets of entries), then decode it again.
func c14BodyBE(e *c14Env, stamp int, l *obsLog) {
	for round := 0; round < 2; round++ {
		extra := map[string]string{}
		for i := 0; i < 3; i++ {
			extra[string(stamped(stamp, 6+i, round))] = string(stamped(stamp, 4200+i*50, round+i))
		}
		x := &base.Base{LogID: string(stamped(stamp, 12, round)), Caller: "c", Addr: "a", Extra: extra}
		n := x.BLength()
		w := &c14Direct{e: e}
		buf := make([]byte, n)
		w.buf = buf
		m := x.FastWriteNocopy(buf, w)
		got, why := splice(buf[:m], len(buf), w.recs)
		var y base.Base
		k, err := y.FastRead(got)
		ok := why == "" && err == nil && k == len(got) && y.LogID == x.LogID && len(y.Extra) == len(extra)
		for kk, vv := range extra {
			ok = ok && y.Extra[kk] == vv
		}
		l.add("BE%d encode %d+%d direct pieces, decoded ok=%v (%s %v)", round, m, len(w.recs), ok, why, err)
	}
}

type c14Thread struct {
	kind string
	body func(e *c14Env, stamp int, l *obsLog)
}

var c14Bodies = map[string]func(e *c14Env, stamp int, l *obsLog){
	"P": c14BodyP, "S1e": c14BodyS1e, "S3big": c14BodyS3big, "BW": c14BodyBW, "E": c14BodyE, "BR": c14BodyBR,
	"R": c14BodyR, "W": c14BodyW, "S1": c14BodyS1, "S2": c14BodyS2, "S3": c14BodyS3, "H": c14BodyH, "B": c14BodyB, "BE": c14BodyBE, "HG": c14BodyHG,
}

var c14Scenarios = [][]string{{"HG", "HG"}, {"HG", "H"}, {"BE", "BE"}, {"BE", "W"}, {"BR", "W"}, {"BR", "R"}, {"BW", "W"}, {"BW", "BW"}, {"E", "E"}, {"E", "R"}, {"H", "R"}, {"P", "P"}, {"P", "W"}, {"S1e", "S1"}, {"S1e", "S3"}, {"S3big", "S3big"}, {"S3big", "W"}, {"R", "R"}, {"W", "W"}, {"S1", "S1"}, {"S3", "S3"}, {"S2", "S2"}, {"R", "S1"}, {"W", "H"}, {"H", "H"}, {"B", "B", "B"}, {"R", "B"}, {"S3", "S3", "S3"}, {"R", "W", "S3"}, {"S1", "S3", "W"}}

type c14Case struct {
	Scenario []string `json:"scenario"`
	Choices  []int    `json:"schedule"`
	Drop     bool     `json:"pool_may_drop,omitempty"`
}

type c14Run struct {
	k        c14Case
	logs     []*obsLog
	auditBuf []string
	snaps    map[interface{}]string
	stamps   []int // override (solo runs)
	span     bool
}

func (r *c14Run) setup(s *mc.Sched) []func() {
	mcache.VerifReset()
	vsync.Reset()
	useSpan := contains(r.k.Scenario, "B") || r.span
	if useSpan {
		bdspan.VerifResetAll() // 10 MiB of fresh spans: only where the span allocator is in play
	}
	thrift.SetSpanCache(useSpan)
	r.logs = nil
	r.auditBuf = nil
	r.snaps = map[interface{}]string{}
	mcache.VerifHook = func(op string, class int) { s.Point(op) }
	vsync.Hook = func(op string) { s.Point(op) }
	vatomic.Hook = func(op string) { s.Point(op) }
	vsync.OnPut = func(x interface{}) { r.snaps[x] = armAndSnapshot(x) }
	vsync.OnGet = func(x interface{}, fresh bool) {
		if fresh {
			return
		}
		if want, ok := r.snaps[x]; ok {
			if got := pooledSnapshot(x); got != want {
				r.auditBuf = append(r.auditBuf, fmt.Sprintf("pooled object written after it was returned to its pool: at Put %s, at next Get %s", want, got))
			}
			delete(r.snaps, x)
		}
	}
	vsync.Drop = nil
	if r.k.Drop {
		vsync.Drop = func() bool { return s.Choose(2, "pool.drop") == 1 }
	}
	env := &c14Env{s: s}
	var bodies []func()
	for i, kind := range r.k.Scenario {
		l := &obsLog{}
		r.logs = append(r.logs, l)
		stamp, body := i+1, c14Bodies[kind]
		if r.stamps != nil {
			stamp = r.stamps[i]
		}
		bodies = append(bodies, func() { body(env, stamp, l) })
	}
	return bodies
}

func (r *c14Run) teardown() {
	mcache.VerifHook, vsync.Hook, vatomic.Hook, vsync.OnPut, vsync.OnGet, vsync.Drop = nil, nil, nil, nil, nil, nil
	thrift.SetSpanCache(false)
}

func contains(s []string, x string) bool {
	for _, y := range s {
		if y == x {
			return true
		}
	}
	return false
}

// solo log of body kind with the given stamp (run alone, same shims)
var c14SoloCache = map[string][]string{}

func c14Solo(kind string, stamp int, span bool) []string {
	key := fmt.Sprintf("%s/%d/%v", kind, stamp, span)
	if l, ok := c14SoloCache[key]; ok {
		return l
	}
	r := &c14Run{k: c14Case{Scenario: []string{kind}}, stamps: []int{stamp}, span: span}
	res := mc.ReplaySchedule(nil, r.setup)
	if res.Panics[0] != nil {
		panic(fmt.Sprintf("c14: solo run of body %s panicked: %s", kind, res.Panics[0].Msg))
	}
	c14SoloCache[key] = r.logs[0].lines
	return r.logs[0].lines
}

// c14Check evaluates one finished execution.
func c14Check(c *mc.Ctx, r *c14Run, res mc.SchedResult) {
	c.Eval(1)
	k := r.k
	k.Choices = res.Choices
	bad := func(class, format string, a ...interface{}) {
		c.Violate("sched", "C14|"+strings.Join(k.Scenario, ",")+"|"+class, fmt.Sprintf("threads %v under schedule %v: ", k.Scenario, nonzero(res.Choices))+fmt.Sprintf(format, a...), k)
	}
	span := contains(k.Scenario, "B")
	// collect the audits of THIS execution first: computing a solo log (cache miss) runs another execution and resets the shims
	vsync.Each(func(x interface{}) {
		if want, ok := r.snaps[x]; ok {
			if got := pooledSnapshot(x); got != want {
				r.auditBuf = append(r.auditBuf, fmt.Sprintf("pooled object written after it was returned to its pool: at Put %s, at end %s", want, got))
			}
		}
	})
	mcache.VerifAuditCoTenant()
	poolAudit := mcache.VerifTakeAudit()
	objAudit := append([]string{}, r.auditBuf...)
	for i, kind := range k.Scenario {
		if p := res.Panics[i]; p != nil {
			bad("panic:"+kind+":"+p.Class, "thread %d (%s) panicked: %s at %s", i, kind, p.Msg, p.Frame)
			return
		}
		got := r.logs[i].lines
		for _, ln := range got {
			if strings.Contains(ln, "ok=false") {
				bad("wrong-result:"+kind, "thread %d (%s) observed a wrong result: %q", i, kind, ln)
				return
			}
		}
		want := c14Solo(kind, i+1, span)
		if len(got) != len(want) {
			bad("log:"+kind, "thread %d (%s) observed %d events, alone it observes %d", i, kind, len(got), len(want))
			return
		}
		for j := range want {
			if got[j] != want[j] {
				bad("log:"+kind, "thread %d (%s) behaves differently than when run alone: observed %q, alone %q", i, kind, got[j], want[j])
				return
			}
		}
	}
	if len(objAudit) > 0 {
		bad("pool-object-audit", "%s", strings.Join(objAudit, "; "))
		return
	}
	if len(poolAudit) > 0 {
		bad("pool-audit:"+auditClass(poolAudit[0]), "buffer pool audit: %s", strings.Join(poolAudit, "; "))
	}
}

func nonzero(ch []int) string {
	var b strings.Builder
	for i, c := range ch {
		if c != 0 {
			fmt.Fprintf(&b, "%d:%d ", i, c)
		}
	}
	return "[" + strings.TrimSpace(b.String()) + "] (point:option, others 0)"
}

// ---- shared maps: every query is a pure read ----

type c14MapCase struct {
	Kind string `json:"kind"` // int | str2str
	N    int    `json:"keys"`
}

// c14Map: every exported query of a loaded map (Get hit/miss, Len, Item, String, %v) leaves every private field of the
// map bit-identical.  Reads that do not write commute, so all interleavings of concurrent queries are equivalent to
// the sequential order explored here.  If the map type holds a synchronisation primitive (package sync or
// sync/atomic), a change may be legitimate and nothing is concluded here (the -race pass still runs).
func c14Map(c *mc.Ctx, k c14MapCase) {
	c.Eval(1)
	kk := make([]string, k.N)
	vi := make([]int, k.N)
	vs := make([]string, k.N)
	for i := range kk {
		kk[i], vi[i], vs[i] = fmt.Sprintf("key-%d-%s", i, strings.Repeat("x", i%7)), i, fmt.Sprintf("val-%d", i)
	}
	var m interface{}
	var queries func() string
	switch k.Kind {
	case "int":
		sm := strmap.NewFromSlice(kk, vi)
		m = sm
		queries = func() string {
			for i, key := range kk {
				if v, ok := sm.Get(key); !ok || v != i {
					return fmt.Sprintf("Get(%q) = %d,%v", key, v, ok)
				}
				sm.Get("absent-" + key)
			}
			sm.Get("")
			for i := 0; i < sm.Len(); i++ {
				sm.Item(i)
			}
			_ = sm.String()
			_ = fmt.Sprint(sm)
			_ = fmt.Sprintf("%v %+v %s", sm, sm, sm)
			return ""
		}
	default:
		sm := strmap.NewStr2StrFromSlice(kk, vs)
		m = sm
		queries = func() string {
			for i, key := range kk {
				if v, ok := sm.Get(key); !ok || v != vs[i] {
					return fmt.Sprintf("Get(%q) = %q,%v", key, v, ok)
				}
				sm.Get("absent-" + key)
			}
			sm.Get("")
			_ = sm.Len()
			return ""
		}
	}
	bad := func(class, format string, a ...interface{}) {
		c.Violate("maps", "C14|shared-map|"+k.Kind+"|"+class, fmt.Sprintf("a loaded %s map of %d keys: ", k.Kind, k.N)+fmt.Sprintf(format, a...), k)
	}
	pi := mc.Try(func() {
		for round := 0; round < 2; round++ {
			d0 := vdump.Key(m, vdump.Opt{Content: true, SkipSync: true})
			if w := queries(); w != "" {
				bad("wrong-answer", "%s", w)
				return
			}
			if d1 := vdump.Key(m, vdump.Opt{Content: true, SkipSync: true}); d1 != d0 && !vdump.HasSync(m) {
				bad("query-writes", "a query (Get / Len / Item / String / %%v) modified the map's private state, and the map holds no synchronisation primitive: two goroutines querying it at the same time race (round %d)", round)
				return
			}
		}
	})
	if pi != nil {
		bad("panic", "panic: %s at %s", pi.Msg, pi.Frame)
	}
}

func c14RunAll(c *mc.Ctx) {
	if c.Shard == 0 {
		for _, kind := range []string{"int", "str2str"} {
			for _, n := range []int{0, 1, 2, 12, 200, 3000} {
				c.Distinct("map", kind, n)
				c14Map(c, c14MapCase{Kind: kind, N: n})
			}
		}
		c.Done("shared maps: every exported query of loaded int / Str2Str maps of 0..3000 keys leaves the private state bit-identical (reads commute)")
	}
	bound := 2
	if c.Thorough() {
		bound = 3
	}
	type job struct {
		sc   []string
		drop bool
	}
	var jobs []job
	for _, sc := range c14Scenarios {
		jobs = append(jobs, job{sc, false})
		if c.Thorough() || len(sc) == 2 {
			jobs = append(jobs, job{sc, true})
		}
	}
	for _, j := range jobs {
		b := bound
		if len(j.sc) >= 3 && !c.Thorough() {
			b = 2
		}
		if j.drop {
			b = bound // dropping is a deviation like a preemption
		}
		r := &c14Run{k: c14Case{Scenario: j.sc, Drop: j.drop}}
		outcomes := map[string]bool{}
		// every shard walks the default schedule of every scenario and takes its share of the first-level subtrees
		st := mc.RunSchedulesSharded(b, 0, c.Expired, c.Mine, c.Shard == 0, r.setup, func(res mc.SchedResult) {
			c14Check(c, r, res)
			h := fnv.New64a()
			for _, ch := range res.Choices {
				h.Write([]byte{byte(ch)})
			}
			outcomes[fmt.Sprint(len(res.Choices), h.Sum64())] = true
		})
		r.teardown()
		c.R.Transitions += st.Schedules
		c.R.Traces += st.Schedules
		c.R.States += int64(len(outcomes))
		c.R.Distinct += int64(len(outcomes))
		c.Count("schedules:"+strings.Join(j.sc, ","), st.Schedules)
		label := fmt.Sprintf("threads %v (pool may drop: %v): all schedules with <= %d preemptions/deviations", j.sc, j.drop, b)
		if st.Capped {
			c.Incomplete(label)
		} else {
			c.Done(label)
		}
	}
	c.Sample("schedule", c14Case{Scenario: []string{"R", "S1"}, Choices: []int{0, 0, 0, 1, 0, 0, 1}})
}

func init() {
	Register(&Check{
		ID: "C14", Level: "model_checking", Procs: 1,
		Rule: "cooperative scheduler over the real code: thread bodies = create/use/release cycles (twice, so pooled objects and buffers are re-acquired) of BufferReader, BufferWriter, the three skip decoders, the TTHeader codec and Binary.ReadString/ReadBinary with the span cache on, each with payload bytes stamped with the thread id; scheduling points before every sync.Pool Get/Put (shim), mcache Malloc/Free (shim), span try-lock CAS/Store (shim) and every Read/Write on the harness-owned source/sink; ALL schedules with <= 2 (thorough 3) preemptions, plus 'the pool dropped its items at this Get' as a deviation; oracle = per-thread observation log identical to the solo run, no foreign stamp, buffer-pool ownership audit, pooled objects neither used (trap) nor written (snapshot) after Put; states = distinct schedules; complemented by a free-running -race pass of the same bodies on the un-shimmed build and concurrent Get on shared maps",
		Assumptions: []string{
			"sequentially consistent memory between scheduling points; unsynchronised accesses between points are invisible to the scheduler and are the business of the free-running -race complement (sampling, declared as such)",
			"sync.Pool is modelled as LIFO with optional loss of all items at a Get; mcache as per-class LIFO",
			"read-only concurrent queries on a loaded map: every exported query is shown to leave the private state bit-identical (when the type holds no synchronisation primitive), so all interleavings of queries commute; the -race pass exercises it on the real build",
		},
		Run:  c14RunAll,
		Post: c14RacePass,
		Replay: func(c *mc.Ctx, sub string, raw json.RawMessage) {
			if sub == "maps" {
				replayAs(raw, func(k c14MapCase) { c14Map(c, k) })
				return
			}
			replayAs(raw, func(k c14Case) {
				r := &c14Run{k: k}
				res := mc.ReplaySchedule(k.Choices, r.setup)
				c14Check(c, r, res)
				r.teardown()
			})
		},
	})
}
