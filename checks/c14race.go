package checks

import (
	"encoding/json"
	"fmt"
	"os"
	"os/exec"
	"strings"
	"time"

	"verif/mc"
)

// c14RacePass runs the free-running -race complement (built by bin/check without the overlay).
func c14RacePass(tier string) (map[string]interface{}, []mc.Violation) {
	bin := os.Getenv("VERIF_RACE_BIN")
	if bin == "" {
		return map[string]interface{}{"race_pass": "not built (VERIF_RACE_BIN unset)"}, nil
	}
	iters := "300"
	if tier == "thorough" {
		iters = "3000"
	}
	t0 := time.Now()
	// first-call mode: fresh processes, the goroutines' first calls into the library race with each other
	firsts := 8
	if tier == "thorough" {
		firsts = 40
	}
	var out []byte
	var err error
	for i := 0; i < firsts && err == nil; i++ {
		cmd := exec.Command(bin, "first")
		cmd.Env = append(os.Environ(), "GOMAXPROCS=16", "GORACE=halt_on_error=1 exitcode=66")
		out, err = cmd.CombinedOutput()
	}
	if err == nil {
		cmd := exec.Command(bin, iters)
		cmd.Env = append(os.Environ(), "GOMAXPROCS=16", "GORACE=halt_on_error=1 exitcode=66")
		out, err = cmd.CombinedOutput()
	}
	extra := map[string]interface{}{"race_pass": map[string]interface{}{"kind": "free-running -race complement (sampling; reports only data races and self-check failures)", "goroutines": 32, "cycles_per_goroutine": iters, "first_call_processes": firsts, "wall_s": time.Since(t0).Seconds(), "output_tail": tailStr(string(out), 300)}}
	if err == nil {
		return extra, nil
	}
	class := "self-check"
	if ee, ok := err.(*exec.ExitError); ok && ee.ExitCode() == 66 || strings.Contains(string(out), "DATA RACE") {
		class = "data-race"
	}
	raw, _ := json.Marshal(map[string]string{"output": tailStr(string(out), 6000)})
	return extra, []mc.Violation{{Property: "C14", Sub: "post", Sig: "C14|race-pass|" + class, What: fmt.Sprintf("free-running -race pass failed (%s): %s", class, tailStr(string(out), 1200)), Case: raw}}
}

func tailStr(s string, n int) string {
	if len(s) > n {
		return "…" + s[len(s)-n:]
	}
	return s
}
