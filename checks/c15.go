package checks

import (
	"bytes"
	"encoding/json"
	"fmt"
	"unsafe"

	"github.com/cloudwego/gopkg/protocol/thrift"
	"github.com/cloudwego/gopkg/protocol/thrift/base"

	"verif/mc"
	"verif/ref"
)

// C15 — no-copy write path produces the same stream as the copying path.

type directRec struct {
	b         []byte
	remainCap int
	prefix    []byte // copy of the linear bytes before the indicated position, taken at the moment of the call
}

// recWriter records every direct write and, like a streaming writer that hands the preceding linear bytes
// to the connection when a direct write is announced, snapshots the buffer up to the indicated position.
type recWriter struct {
	recs []directRec
	buf  []byte // the buffer the codec writes into
}

func (w *recWriter) WriteDirect(b []byte, remainCap int) error {
	r := directRec{b: b, remainCap: remainCap}
	if pos := len(w.buf) - remainCap; w.buf != nil && pos >= 0 && pos <= len(w.buf) {
		r.prefix = append([]byte{}, w.buf[:pos]...)
	}
	w.recs = append(w.recs, r)
	return nil
}

// splice is the independent oracle: insert the i-th direct slice at linear offset len(buf)-remainCap_i.
func splice(linear []byte, bufLen int, recs []directRec) ([]byte, string) {
	var out []byte
	prev := 0
	for i, r := range recs {
		pos := bufLen - r.remainCap
		if pos < prev || pos > len(linear) {
			return nil, fmt.Sprintf("direct write #%d indicates position %d (buffer length %d - remaining %d), outside the linear bytes written so far [%d,%d]", i, pos, bufLen, r.remainCap, prev, len(linear))
		}
		out = append(out, linear[prev:pos]...)
		out = append(out, r.b...)
		prev = pos
	}
	return append(out, linear[prev:]...), ""
}

type c15Case struct {
	Kind  string `json:"kind"`  // string | binary | seq | base | baseresp | exception
	Lens  []int  `json:"lens"`  // value lengths
	Spare int    `json:"spare"` // spare capacity of the buffer beyond its length
	Extra int    `json:"extra"` // the buffer is this much LONGER than the value (a struct embedded in a larger frame)
	W     bool   `json:"direct_writer"`
	Map   int    `json:"map"`                          // 0 nil, 1 empty, 2 one entry (Lens[3], Lens[4]), 3 Lens[3] entries whose values have Lens[4]+i bytes
	After int    `json:"after_failed_write,omitempty"` // first, this many writes into a too-short buffer are attempted (they panic; the caller recovers)
}

// c15Val: n bytes of text that mixes ASCII with VALID multi-byte UTF-8 (2-, 3- and 4-byte characters; a character cut by
// the length limit leaves an invalid tail, which is legal string content too).
func c15Val(n, salt int) string {
	const unit = "aé服😀z"
	b := make([]byte, 0, n+16)
	for i := 0; len(b) < n; i++ {
		b = append(b, byte(0x21+(i+salt*7)%90))
		b = append(b, unit[(i+salt)%len(unit):]...)
	}
	return string(b[:n])
}

const nocopyThreshold = 4096

func c15One(c *mc.Ctx, k c15Case) {
	c.Eval(1)
	bad := func(class, format string, a ...interface{}) {
		c.Violate("nocopy", "C15|"+k.Kind+"|"+class, fmt.Sprintf("%s lens=%v spare=%d direct-writer=%v map=%d: ", k.Kind, k.Lens, k.Spare, k.W, k.Map)+fmt.Sprintf(format, a...), k)
	}
	pi := mc.Try(func() {
		B := thrift.Binary
		var rw *recWriter
		var w thrift.NocopyWriter
		if k.W {
			rw = &recWriter{}
			w = rw
		}
		var vals []string // the caller's values, to check aliasing and the threshold rule
		var copying []byte
		var write func(buf []byte) int
		total := 0
		switch k.Kind {
		case "string", "binary", "seq":
			for i, n := range k.Lens {
				vals = append(vals, c15Val(n, i))
			}
			for _, v := range vals {
				if k.Kind == "binary" {
					if B.BinaryLengthNocopy([]byte(v)) != B.BinaryLength([]byte(v)) {
						bad("length", "BinaryLengthNocopy != BinaryLength for %d bytes", len(v))
						return
					}
					total += B.BinaryLengthNocopy([]byte(v))
				} else {
					if B.StringLengthNocopy(v) != B.StringLength(v) {
						bad("length", "StringLengthNocopy != StringLength for %d bytes", len(v))
						return
					}
					total += B.StringLengthNocopy(v)
				}
			}
			cb := make([]byte, total)
			off := 0
			for _, v := range vals {
				off += B.WriteString(cb[off:], v)
			}
			copying = cb[:off]
			bins := make([][]byte, len(vals))
			for i, v := range vals {
				bins[i] = []byte(v)
			}
			if k.Kind == "binary" {
				vals = vals[:0]
				for _, b := range bins {
					vals = append(vals, unsafe.String(unsafe.SliceData(b), len(b)))
				}
			}
			write = func(buf []byte) int {
				off := 0
				for i, v := range vals {
					if k.Kind == "binary" {
						off += B.WriteBinaryNocopy(buf[off:], w, bins[i])
					} else {
						off += B.WriteStringNocopy(buf[off:], w, v)
					}
				}
				return off
			}
		case "base", "baseresp", "exception":
			var m thrift.FastCodec
			var ex map[string]string
			switch k.Map {
			case 1:
				ex = map[string]string{}
			case 2:
				kk, vv := c15Val(k.Lens[3], 3), c15Val(k.Lens[4], 4)
				vals = append(vals, kk, vv)
				ex = map[string]string{kk: vv}
			case 3:
				ex = map[string]string{}
				for i := 0; i < k.Lens[3]; i++ {
					ex[fmt.Sprintf("key-%03d", i)] = c15Val(k.Lens[4]+i, 5+i)
				}
			}
			switch k.Kind {
			case "base":
				x := &base.Base{LogID: c15Val(k.Lens[0], 0), Caller: c15Val(k.Lens[1], 1), Addr: c15Val(k.Lens[2], 2), Extra: ex}
				vals = append([]string{x.LogID, x.Caller, x.Addr}, vals...)
				m = x
			case "baseresp":
				x := &base.BaseResp{StatusMessage: c15Val(k.Lens[0], 0), StatusCode: 7, Extra: ex}
				vals = append([]string{x.StatusMessage}, vals...)
				m = x
			default:
				m = thrift.NewApplicationException(3, c15Val(k.Lens[0], 0))
			}
			total = m.BLength()
			cb := make([]byte, total)
			cn := m.FastWriteNocopy(cb, nil)
			if fw, ok := m.(interface{ FastWrite([]byte) int }); ok {
				cb2 := make([]byte, total)
				if n2 := fw.FastWrite(cb2); n2 != cn || (k.Map != 3 && !bytes.Equal(cb2[:n2], cb[:cn])) { // (several map entries: the order may differ)
					bad("nil-writer-differs", "FastWrite and FastWriteNocopy(nil) differ")
					return
				}
			}
			if cn != total {
				bad("length", "copying path wrote %d bytes, BLength %d", cn, total)
				return
			}
			copying = cb[:cn]
			write = func(buf []byte) int { return m.FastWriteNocopy(buf, w) }
			for i := 0; i < k.After; i++ {
				// the struct "grew" after its length was taken: the buffer is too short, the write panics, the caller recovers
				for _, sl := range []int{total / 2, 64, 24, 9} {
					if sl < total {
						short := make([]byte, sl)
						mc.Try(func() { m.FastWriteNocopy(short, &recWriter{buf: short}) })
					}
				}
			}
		}
		backing := bytes.Repeat([]byte{0xCC}, total+k.Extra+k.Spare)
		buf := backing[: total+k.Extra : total+k.Extra+k.Spare]
		if rw != nil {
			rw.buf = buf
		}
		n := write(buf)
		if n < 0 || n > total {
			bad("return", "the no-copy writer returned %d for a %d-byte value", n, total)
			return
		}
		if !bytes.Equal(backing[total:], bytes.Repeat([]byte{0xCC}, k.Extra+k.Spare)) {
			bad("overrun", "the no-copy writer wrote beyond the bytes of the value (the rest of the frame / spare capacity was touched)")
			return
		}
		var recs []directRec
		if rw != nil {
			recs = rw.recs
		}
		// Which values go through the direct writer is the library's choice (the threshold is an implementation constant
		// and the pieces may or may not alias the caller's memory): the property constrains only the resulting stream.
		// Without a writer attached there is nobody to write directly to.
		if !k.W && len(recs) != 0 {
			bad("direct-write-without-writer", "%d direct writes although no direct writer is attached", len(recs))
			return
		}
		sum := 0
		for i, r := range recs {
			sum += len(r.b)
			if r.remainCap < len(r.b) {
				bad("remain-cap", "direct write #%d: remaining capacity %d is smaller than the %d bytes written directly", i, r.remainCap, len(r.b))
				return
			}
		}
		c.Count(fmt.Sprintf("cases-with-%d-direct-writes", minInt(len(recs), 3)), 1)
		if n+sum != total {
			bad("length", "returned %d + %d bytes written directly != advertised length %d", n, sum, total)
			return
		}
		got, why := splice(buf[:n], len(buf), recs)
		if why != "" {
			bad("splice-position", "%s", why)
			return
		}
		for i, r := range recs {
			// a streaming consumer sends the linear bytes before the indicated position when the direct write is announced
			if pos := len(buf) - r.remainCap; pos >= 0 && pos <= n && !bytes.Equal(r.prefix, buf[:pos]) {
				bad("prefix-not-final-at-direct-write", "direct write #%d was announced at position %d before the linear bytes preceding it were final (they changed afterwards at +%d)", i, pos, firstDiff(r.prefix, buf[:pos]))
				return
			}
		}
		if k.Map == 3 {
			// several map entries: Go's map order differs between two encodings; compare the decoded structs
			gv, gn, gok := ref.Decode(got, ref.STRUCT)
			cv, cn2, cok := ref.Decode(copying, ref.STRUCT)
			if !gok || !cok || gn != len(got) || cn2 != len(copying) || len(got) != len(copying) || len(gv.F) != len(cv.F) {
				bad("stream-differs", "after splicing, the stream (%d bytes, well-formed %v) does not hold the same struct as the copying path (%d bytes)", len(got), gok, len(copying))
				return
			}
			for i := range gv.F {
				if gv.F[i].ID != cv.F[i].ID || !valueEqUnordered(gv.F[i].V, cv.F[i].V) {
					bad("stream-differs", "after splicing, field %d of the stream differs from the copying path (map entries compared as a set)", gv.F[i].ID)
					return
				}
			}
		} else if !bytes.Equal(got, copying) {
			bad("stream-differs", "after splicing the directly written pieces in at the indicated positions the stream differs from the copying path at +%d (len %d vs %d)", firstDiff(got, copying), len(got), len(copying))
			return
		}
		if !k.W && k.Map != 3 && !bytes.Equal(buf[:n], copying) {
			bad("nil-writer-differs", "without a direct writer the two paths are not byte-identical")
			return
		}
		// a second writer that follows the convention of network buffers (the splice position is counted from the END of
		// the allocated buffer: remainCap bytes remain after it) must agree with the independent splice
		if k.W && k.Spare == 0 && k.Extra == 0 && k.Map != 3 {
			nw := &endWriter{}
			nb := nw.Malloc(total)
			rw.recs, rw.buf = nil, nil
			w = nw
			n2 := write(nb)
			_ = n2
			if !bytes.Equal(nw.Bytes(), copying) {
				bad("end-relative-splice", "splicing at positions counted from the end of the buffer (remainCap) differs from the copying path")
				return
			}
			// the direct writer is an interface: a caller may implement it on a struct VALUE (or a func type) as well as on
			// a pointer; the stream is the same
			for _, mk := range []func(inner *endWriter) thrift.NocopyWriter{
				func(inner *endWriter) thrift.NocopyWriter { return valWriter{inner: inner, tag: 7} },
				func(inner *endWriter) thrift.NocopyWriter { return funcWriter(inner.WriteDirect) },
			} {
				vw := &endWriter{}
				vb := vw.Malloc(total)
				w = mk(vw)
				write(vb)
				if !bytes.Equal(vw.Bytes(), copying) {
					bad("non-pointer-writer", "with a direct writer implemented on a non-pointer type (%T) the stream differs from the copying path", w)
					return
				}
			}
		}
	})
	if pi != nil {
		bad("panic", "panic: %s at %s", pi.Msg, pi.Frame)
	}
}

func c15Run(c *mc.Ctx) {
	// (1) every length 0..3*4096+1 for strings and binaries
	lo, hi := c.Span(3*4096 + 2)
	for n := lo; n < hi; n++ {
		for _, kind := range []string{"string", "binary"} {
			for _, w := range []bool{false, true} {
				for _, spare := range []int{0, 13} {
					c15One(c, c15Case{Kind: kind, Lens: []int{int(n)}, Spare: spare, W: w})
				}
				if n%97 == 0 || (n >= 4090 && n <= 4100) {
					c15One(c, c15Case{Kind: kind, Lens: []int{int(n)}, Extra: 57, Spare: 5, W: w})
				}
			}
		}
	}
	for _, n := range []int{65535, 65536, 65537, 70000, 1<<24 - 1, 1 << 24, 1<<24 + 1} {
		if !c.Mine() {
			continue
		}
		for _, kind := range []string{"string", "binary"} {
			for _, w := range []bool{false, true} {
				c15One(c, c15Case{Kind: kind, Lens: []int{n}, W: w})
			}
		}
		c15One(c, c15Case{Kind: "base", Lens: []int{n, 3, 3, 0, 0}, W: true, Extra: 9})
	}
	c.DistinctN(2 * (hi - lo))
	c.Done("WriteStringNocopy / WriteBinaryNocopy: lengths 65535..65537, 70000, 2^24-1..2^24+1 and every length 0..12289 x {nil, recording} writer x {exact, spare} capacity")
	// (2) sequences of <= 3 calls into one buffer
	ls := []int{0, 1, 4095, 4096, 4097, 9000}
	for _, a := range ls {
		for _, b := range append([]int{-1}, ls...) {
			for _, d := range append([]int{-1}, ls...) {
				if b < 0 && d >= 0 {
					continue
				}
				if !c.Mine() {
					continue
				}
				lens := []int{a}
				if b >= 0 {
					lens = append(lens, b)
				}
				if d >= 0 {
					lens = append(lens, d)
				}
				c.Distinct("seq", fmt.Sprint(lens))
				for _, w := range []bool{false, true} {
					for _, spare := range []int{0, 100} {
						c15One(c, c15Case{Kind: "seq", Lens: lens, Spare: spare, W: w})
					}
					c15One(c, c15Case{Kind: "seq", Lens: lens, Extra: 33, W: w})
				}
			}
		}
	}
	c.Done("all sequences of <= 3 no-copy writes with lengths {0,1,4095,4096,4097,9000} into one buffer")
	// (3) struct level
	fl := []int{3, 4095, 4096, 4097}
	for _, l0 := range fl {
		for _, l1 := range fl {
			for _, l2 := range fl {
				for mp := 0; mp <= 2; mp++ {
					mls := [][2]int{{0, 0}}
					if mp == 2 {
						mls = nil
						for _, a := range fl {
							for _, b := range fl {
								mls = append(mls, [2]int{a, b})
							}
						}
					}
					for _, ml := range mls {
						if !c.Mine() {
							continue
						}
						c.Distinct("base", l0, l1, l2, mp, ml)
						for _, w := range []bool{false, true} {
							for _, spare := range []int{0, 64} {
								c15One(c, c15Case{Kind: "base", Lens: []int{l0, l1, l2, ml[0], ml[1]}, Map: mp, W: w, Spare: spare, Extra: spare / 2})
								c15One(c, c15Case{Kind: "base", Lens: []int{l0, l1, l2, ml[0], ml[1]}, Map: mp, W: w, Spare: spare})
								if l1 == 3 && l2 == 3 {
									c15One(c, c15Case{Kind: "baseresp", Lens: []int{l0, 0, 0, ml[0], ml[1]}, Map: mp, W: w, Spare: spare})
									c15One(c, c15Case{Kind: "baseresp", Lens: []int{l0, 0, 0, ml[0], ml[1]}, Map: mp, W: w, Extra: 41})
									if mp == 0 {
										c15One(c, c15Case{Kind: "exception", Lens: []int{l0}, W: w, Spare: spare})
									}
								}
							}
						}
					}
				}
			}
		}
	}
	// many large values in one struct (more direct writes than any fixed-size queue or budget), and writes that follow a
	// failed (panicked, recovered) write of the same type
	for _, n := range []int{2, 7, 8, 9, 15, 16, 17, 18, 33, 70} {
		for _, base := range []int{4096, 5000} {
			if !c.Mine() {
				continue
			}
			c.Distinct("many", n, base)
			for _, kind := range []string{"base", "baseresp"} {
				for _, after := range []int{0, 1, 3} {
					c15One(c, c15Case{Kind: kind, Lens: []int{4097, 3, 3, n, base}, Map: 3, W: true, After: after})
					c15One(c, c15Case{Kind: kind, Lens: []int{3, 3, 3, n, base}, Map: 3, W: false, After: after})
				}
			}
		}
	}
	for _, after := range []int{1, 2} {
		if c.Mine() {
			c15One(c, c15Case{Kind: "base", Lens: []int{4096, 3, 4097, 4095, 4096}, Map: 2, W: true, After: after})
			c15One(c, c15Case{Kind: "baseresp", Lens: []int{4097, 0, 0, 5000, 4096}, Map: 2, W: true, After: after})
		}
	}
	c.Sample("struct", c15Case{Kind: "base", Lens: []int{4096, 3, 4097, 4095, 4096}, Map: 2, W: true, Spare: 64})
	c.Done("Base with LogID/Caller/Addr/map key/map value each in {3,4095,4096,4097} bytes (4^5, plus nil and empty map), BaseResp (4^3), ApplicationException; nil and recording writer; exact and spare capacity")
}

func init() {
	Register(&Check{
		ID: "C15", Level: "exploration",
		Rule: "WriteStringNocopy/WriteBinaryNocopy for EVERY length 0..3*4096+1 x {nil, recording} direct writer x buffer with exact / spare capacity; all sequences of <= 3 calls over lengths {0,1,4095,4096,4097,9000}; Base (4^5 field-length combinations + nil/empty map), BaseResp, ApplicationException; oracle = independent splice of the linear bytes and the recorded (slice, remainCap) pairs compared with the copying path; distinct = distinct length tuples",
		Assumptions: []string{"where a struct map has several entries the two streams are compared as decoded structs with maps as sets (Go map order is not owned)",
			"'the positions the library indicates' is read as a streaming consumer reads it: when a direct write is announced, the linear bytes before the indicated position are already final (the buffer may be longer than the value: a struct inside a larger frame)"},
		Run:    c15Run,
		Replay: func(c *mc.Ctx, sub string, raw json.RawMessage) { replayAs(raw, func(k c15Case) { c15One(c, k) }) },
	})
}

// endWriter is a direct writer in the style of a network link buffer: Malloc hands out the whole linear buffer, every
// WriteDirect records the piece and how many bytes of the linear buffer remain AFTER it.
type endWriter struct {
	data []byte
	wbuf [][]byte
	wend []int
}

// valWriter / funcWriter: the same writer behind a struct value and behind a func type.
type valWriter struct {
	inner *endWriter
	tag   int
}

func (v valWriter) WriteDirect(b []byte, remainCap int) error {
	return v.inner.WriteDirect(b, remainCap)
}

type funcWriter func(b []byte, remainCap int) error

func (f funcWriter) WriteDirect(b []byte, remainCap int) error { return f(b, remainCap) }

func (p *endWriter) Malloc(n int) []byte {
	p.wbuf, p.wend = p.wbuf[:0], p.wend[:0]
	p.data = make([]byte, n)
	return p.data
}

func (p *endWriter) WriteDirect(b []byte, remainCap int) error {
	if remainCap < len(b) {
		panic("endWriter: the remaining capacity cannot hold the piece")
	}
	p.wbuf = append(p.wbuf, b)
	p.wend = append(p.wend, remainCap)
	return nil
}

// Bytes splices the pieces in: the linear buffer was sized for the copying path, so each piece replaces as many
// bytes of it.
func (p *endWriter) Bytes() []byte {
	ret := make([]byte, 0, len(p.data))
	start := 0
	for i := range p.wend {
		end := len(p.data) - p.wend[i]
		if end < start || end > len(p.data) {
			return nil
		}
		ret = append(ret, p.data[start:end]...)
		ret = append(ret, p.wbuf[i]...)
		start = end
	}
	left := len(p.data) - len(ret)
	if left < 0 || start+left > len(p.data) {
		return nil
	}
	return append(ret, p.data[start:start+left]...)
}

func minInt(a, b int) int {
	if a < b {
		return a
	}
	return b
}
