package checks

import (
	"bytes"
	"encoding/json"
	"fmt"
	bdspan "github.com/bytedance/gopkg/lang/span"
	"sort"
	"unsafe"

	"github.com/bytedance/gopkg/lang/mcache"
	"github.com/cloudwego/gopkg/bufiox"
	"github.com/cloudwego/gopkg/protocol/thrift"
	"github.com/cloudwego/gopkg/protocol/thrift/base"
	"github.com/cloudwego/gopkg/protocol/thrift/unknownfields"
	vsync "github.com/cloudwego/gopkg/verifshim/vsync"

	"verif/mc"
	"verif/ref"
)

// C16 — decoded values are independent of the input buffer and of the allocator configuration.

type c16Case struct {
	Entry string `json:"entry"` // Binary.ReadBinary | Binary.ReadString | BufferReader.ReadBinary/bytes | .../stream | ...ReadString... | Base.FastRead | ConvertUnknownFields
	Lens  []int  `json:"lens"`  // the run alternates over these lengths
	N     int    `json:"decodes"`
	Chunk int    `json:"chunk,omitempty"`
}

var c16Lens = []int{0, 1, 127, 128, 129, 255, 256, 257, 1023, 1024, 4096, 65535, 65536, 131071, 131072, 131073, 1 << 20, 1<<20 + 1}

func c16Content(i, n int) []byte {
	b := make([]byte, n)
	for j := range b {
		b[j] = byte((i*131 + j + j/253) % 127)
	}
	return b
}

type span struct {
	lo, hi uintptr
	idx    int
	str    bool // immutable (string): may share memory with other strings (the runtime interns 1-byte strings)
}

// c16Run1 decodes the run under the given span-cache setting and returns the values (copied) or a violation text.
func c16Decode(k c16Case, spanOn bool, report func(class, msg string)) (vals [][]byte, ok bool) {
	thrift.SetSpanCache(spanOn)
	defer thrift.SetSpanCache(false)
	bdspan.VerifResetAll()
	mcache.VerifReset()
	vsync.Reset()
	// build the input: N values, lengths cycling over k.Lens, distinct content
	want := make([][]byte, k.N)
	var input []byte
	for i := 0; i < k.N; i++ {
		want[i] = c16Content(i, k.Lens[i%len(k.Lens)])
	}
	switch k.Entry {
	case "Base.FastRead":
		// one Base per three values
		for i := 0; i+2 < k.N; i += 3 {
			st := baseStruct(string(want[i]), string(want[i+1]), string(want[i+2]), nil)
			input = ref.Encode(input, &st)
		}
	case "ApplicationException.FastRead":
		for i := 0; i < k.N; i++ {
			st := exceptionStruct(string(want[i]), int32(i))
			input = ref.Encode(input, &st)
		}
	case "ConvertUnknownFields":
		// the string sits at the top level, inside a list, a set, as a map key+value, or inside a nested struct
		for i := 0; i < k.N; i++ {
			sv := ref.Value{T: ref.STRING, S: want[i]}
			var v ref.Value
			switch i % 5 {
			case 0:
				v = sv
			case 1:
				v = ref.Value{T: ref.LIST, Elem: ref.STRING, L: []ref.Value{sv}}
			case 2:
				v = ref.Value{T: ref.SET, Elem: ref.STRING, L: []ref.Value{sv}}
			case 3:
				v = ref.Value{T: ref.MAP, Key: ref.I32, Elem: ref.STRING, L: []ref.Value{{T: ref.I32, I: 1}, sv}}
			default:
				v = ref.Value{T: ref.STRUCT, F: []ref.Field{{ID: 1, V: sv}}}
			}
			input = ref.EncodeField(input, int16(i%100+1), &v)
		}
	case "BufferReader.ReadMessageBegin/stream":
		for i := 0; i < k.N; i++ {
			input = ref.MessageBegin(input, string(want[i]), 1, int32(i))
		}
	default:
		for i := 0; i < k.N; i++ {
			input = ref.Encode(input, &ref.Value{T: ref.STRING, S: want[i]})
		}
	}
	inputSnap := append([]byte{}, input...)
	type ret struct {
		b   []byte // byte-slice results (nil for strings)
		s   string
		isS bool
	}
	rets := make([]ret, 0, k.N)
	var r bufiox.Reader
	var br *thrift.BufferReader
	switch k.Entry {
	case "BufferReader.ReadBinary/bytes", "BufferReader.ReadString/bytes":
		r = bufiox.NewBytesReader(input)
	case "BufferReader.ReadBinary/stream", "BufferReader.ReadString/stream", "BufferReader.ReadMessageBegin/stream":
		r = bufiox.NewDefaultReader(NewEnvReader(inputSnap, EnvCfg{Chunk: k.Chunk}))
	}
	if r != nil {
		br = thrift.NewBufferReader(r)
	}
	off := 0
	for i := 0; i < k.N; i++ {
		switch k.Entry {
		case "Binary.ReadBinary":
			b, l, err := thrift.Binary.ReadBinary(input[off:])
			if err != nil {
				report("decode-error", fmt.Sprintf("decode #%d failed: %v", i, err))
				return nil, false
			}
			off += l
			rets = append(rets, ret{b: b})
		case "Binary.ReadString":
			s, l, err := thrift.Binary.ReadString(input[off:])
			if err != nil {
				report("decode-error", fmt.Sprintf("decode #%d failed: %v", i, err))
				return nil, false
			}
			off += l
			rets = append(rets, ret{s: s, isS: true})
		case "BufferReader.ReadBinary/bytes", "BufferReader.ReadBinary/stream":
			b, err := br.ReadBinary()
			if err != nil {
				report("decode-error", fmt.Sprintf("decode #%d failed: %v", i, err))
				return nil, false
			}
			rets = append(rets, ret{b: b})
			if i%7 == 6 {
				r.Release(nil) // buffers are recycled between decodes
			}
		case "BufferReader.ReadString/bytes", "BufferReader.ReadString/stream":
			s, err := br.ReadString()
			if err != nil {
				report("decode-error", fmt.Sprintf("decode #%d failed: %v", i, err))
				return nil, false
			}
			rets = append(rets, ret{s: s, isS: true})
			if i%7 == 6 {
				r.Release(nil)
			}
		case "BufferReader.ReadMessageBegin/stream":
			name, _, _, err := br.ReadMessageBegin()
			if err != nil {
				report("decode-error", fmt.Sprintf("decode #%d failed: %v", i, err))
				return nil, false
			}
			rets = append(rets, ret{s: name, isS: true})
			if i%5 == 4 { // the codec object goes back to its pool and is handed out again
				br.Recycle()
				br = thrift.NewBufferReader(r)
			}
			if i%7 == 6 {
				r.Release(nil)
			}
		case "Base.FastRead":
			if i%3 != 0 || i+2 >= k.N {
				continue
			}
			var x base.Base
			if (i/3)%2 == 1 {
				// the receiving struct already holds this very message (decoded before from another copy of the bytes): a
				// "field unchanged, keep it" shortcut must not alias the new input either
				var t base.Base
				if l0, e0 := t.FastRead(input[off:]); e0 == nil {
					x.FastRead(append([]byte{}, input[off:off+l0]...))
				}
			}
			l, err := x.FastRead(input[off:])
			if err != nil {
				report("decode-error", fmt.Sprintf("decode #%d failed: %v", i, err))
				return nil, false
			}
			off += l
			rets = append(rets, ret{s: x.LogID, isS: true}, ret{s: x.Caller, isS: true}, ret{s: x.Addr, isS: true})
		case "ApplicationException.FastRead":
			x := thrift.NewApplicationException(0, "")
			switch i % 3 {
			case 1: // built by the constructor with the message that arrives
				x = thrift.NewApplicationException(int32(i), string(want[i]))
			case 2: // decoded before from another copy of the bytes
				t := thrift.NewApplicationException(0, "")
				if l0, e0 := t.FastRead(input[off:]); e0 == nil {
					x.FastRead(append([]byte{}, input[off:off+l0]...))
				}
			}
			l, err := x.FastRead(input[off:])
			if err != nil || x.TypeID() != int32(i) {
				report("decode-error", fmt.Sprintf("decode #%d failed: %v (type id %d)", i, err, x.TypeID()))
				return nil, false
			}
			off += l
			rets = append(rets, ret{s: x.Msg(), isS: true})
		}
	}
	if k.Entry == "ConvertUnknownFields" {
		fs, err := unknownfields.ConvertUnknownFields(input)
		if err != nil || len(fs) != k.N {
			report("decode-error", fmt.Sprintf("ConvertUnknownFields failed: %v", err))
			return nil, false
		}
		for i, f := range fs {
			var sv interface{}
			switch i % 5 {
			case 0:
				sv = f.Value
			case 1, 2:
				sv = f.Value.([]unknownfields.UnknownField)[0].Value
			case 3:
				sv = f.Value.([]unknownfields.UnknownField)[1].Value
			default:
				sv = f.Value.([]unknownfields.UnknownField)[0].Value
			}
			rets = append(rets, ret{s: sv.(string), isS: true})
		}
	}
	if br != nil {
		br.Recycle()
		r.Release(nil)
	}
	if k.Entry == "Base.FastRead" {
		want = want[:len(rets)]
	}
	// (1) the caller reuses its input buffer; pool buffers are recycled and scribbled by another tenant
	for i := range input {
		input[i] = 0xEE
	}
	mcache.VerifCoTenant(true)
	for i, rt := range rets {
		got := rt.b
		if rt.isS {
			got = unsafe.Slice(unsafe.StringData(rt.s), len(rt.s))
		}
		if !bytes.Equal(got, want[i]) {
			report("value-changed-after-input-reuse", fmt.Sprintf("value #%d (%d bytes) changed after the input buffer was overwritten / the reader's buffers were recycled (first difference at +%d): the value is not an independent copy", i, len(want[i]), firstDiff(got, want[i])))
			return nil, false
		}
	}
	// (2) capacity ranges of all returned values are pairwise disjoint and disjoint from the input
	spans := make([]span, 0, len(rets)+1)
	inLo := uintptr(unsafe.Pointer(unsafe.SliceData(input)))
	spans = append(spans, span{inLo, inLo + uintptr(cap(input)), -1, false})
	for i, rt := range rets {
		var p uintptr
		var n int
		if rt.isS {
			p, n = uintptr(unsafe.Pointer(unsafe.StringData(rt.s))), len(rt.s)
		} else {
			p, n = uintptr(unsafe.Pointer(unsafe.SliceData(rt.b))), cap(rt.b)
		}
		if n == 0 || p == 0 {
			continue
		}
		spans = append(spans, span{p, p + uintptr(n), i, rt.isS})
	}
	sort.Slice(spans, func(a, b int) bool { return spans[a].lo < spans[b].lo })
	// sweep: a mutable range (byte slice up to capacity, input) may overlap nothing; a string may overlap only strings
	var hiAll, hiMut uintptr
	idxAll, idxMut := -2, -2
	for _, sp := range spans {
		other := -2
		if !sp.str && sp.lo < hiAll {
			other = idxAll
		} else if sp.str && sp.lo < hiMut {
			other = idxMut
		}
		if other != -2 {
			what := fmt.Sprintf("values #%d and #%d", other, sp.idx)
			if other < 0 || sp.idx < 0 {
				what = fmt.Sprintf("value #%d and the input buffer", other+sp.idx+1)
			}
			report("capacity-overlap", fmt.Sprintf("the memory (up to capacity) of %s overlaps: appending to or modifying one can alter the other", what))
			return nil, false
		}
		if sp.hi > hiAll {
			hiAll, idxAll = sp.hi, sp.idx
		}
		if !sp.str && sp.hi > hiMut {
			hiMut, idxMut = sp.hi, sp.idx
		}
	}
	// behavioural spot check: append to and overwrite every third byte slice; the others and the input stay intact
	for i, rt := range rets {
		if !rt.isS && i%3 == 0 {
			b := append(rt.b, 0xAB, 0xCD, 0xEF, 0x01)
			for j := range b {
				b[j] = 0xAB
			}
			_ = append(rt.b[:0], bytes.Repeat([]byte{0xAB}, cap(rt.b))...)
		}
	}
	for i, rt := range rets {
		if !rt.isS && i%3 == 0 {
			continue
		}
		got := rt.b
		if rt.isS {
			got = unsafe.Slice(unsafe.StringData(rt.s), len(rt.s))
		}
		if !bytes.Equal(got, want[i]) {
			report("sibling-changed", fmt.Sprintf("value #%d changed after a sibling byte slice was appended to / overwritten", i))
			return nil, false
		}
	}
	for i := range input {
		if input[i] != 0xEE {
			report("input-changed", fmt.Sprintf("the input buffer changed at %d after returned byte slices were appended to / overwritten", i))
			return nil, false
		}
	}
	return want, true
}

func c16One(c *mc.Ctx, k c16Case) {
	c.Eval(1)
	bad := func(class, msg string) {
		c.Violate("indep", "C16|"+k.Entry+"|"+class, fmt.Sprintf("%s, run of %d decodes over lengths %v: %s", k.Entry, k.N, k.Lens, msg), k)
	}
	pi := mc.Try(func() {
		var seq [2][][]byte
		for i, on := range []bool{false, true} {
			v, ok := c16Decode(k, on, func(class, msg string) {
				bad(fmt.Sprintf("%s:spancache=%v", class, on), fmt.Sprintf("[span cache %v] %s", on, msg))
			})
			if !ok {
				return
			}
			seq[i] = v
		}
		// (3) identical results for both settings — both equal the expected sequence, checked inside; lengths double-checked here
		if len(seq[0]) != len(seq[1]) {
			bad("spancache-differs", "the number of decoded values differs between span cache off and on")
		}
	})
	if pi != nil {
		vsync.Reset()
		thrift.SetSpanCache(false)
		if pi.IsAllocCap() {
			bad("alloc", "allocation cap")
		} else {
			bad("panic", fmt.Sprintf("panic: %s at %s", pi.Msg, pi.Frame))
		}
	}
}

var c16Entries = []string{"Binary.ReadBinary", "Binary.ReadString", "BufferReader.ReadBinary/bytes", "BufferReader.ReadString/bytes", "BufferReader.ReadBinary/stream", "BufferReader.ReadString/stream", "BufferReader.ReadMessageBegin/stream", "Base.FastRead", "ApplicationException.FastRead", "ConvertUnknownFields"}

func c16Run(c *mc.Ctx) {
	th := c.Thorough()
	setAllocCap(256 << 20)
	wrap := 1 << 20 // quick: one wrap of the 1 MiB span; thorough: two and a bit
	if th {
		wrap = 2<<20 + 300000
	}
	for _, L := range c16Lens {
		n := wrap/(L+1) + 3
		if n > 12000 {
			n = 12000
		}
		if n < 3 {
			n = 3
		}
		for _, e := range c16Entries {
			if !c.Mine() {
				continue
			}
			if c.Expired() {
				c.Incomplete("single-class runs: deadline")
				return
			}
			chunk := 0
			if e == "BufferReader.ReadBinary/stream" {
				chunk = 4097
			}
			nn := n
			if (e == "Base.FastRead" || e == "ApplicationException.FastRead" || e == "ConvertUnknownFields" || e == "BufferReader.ReadMessageBegin/stream") && L > 131073 {
				nn = 6
			}
			c.Distinct("run", e, L)
			c16One(c, c16Case{Entry: e, Lens: []int{L}, N: nn, Chunk: chunk})
		}
	}
	c.Done(fmt.Sprintf("runs of consecutive decodes wrapping the 1 MiB span (%d bytes per run) for each of %d length classes (0 .. 1 MiB+1, both edges of every span class) x %d entry points x span cache off/on", wrap, len(c16Lens), len(c16Entries)))
	// mixed-class runs: all ordered pairs of classes alternating
	mixed := []int{0, 1, 127, 128, 129, 256, 1024, 4096, 65536, 131071, 131072, 131073}
	for _, a := range mixed {
		for _, b := range mixed {
			if a == b {
				continue
			}
			for _, e := range c16Entries {
				if !c.Mine() {
					continue
				}
				if c.Expired() {
					c.Incomplete("mixed-class runs: deadline")
					return
				}
				c.Distinct("mixed", e, a, b)
				c16One(c, c16Case{Entry: e, Lens: []int{a, b}, N: 24})
				// the same alternation long enough to wrap the span once (the short run never leaves the first span)
				if nw := 2*(wrap/(a+b+2)) + 4; nw > 24 && a+b <= 8192 {
					if nw > 3000 && !th {
						nw = 3000
					}
					if nw > 12000 {
						nw = 12000
					}
					c.Distinct("mixed-wrap", e, a, b)
					c16One(c, c16Case{Entry: e, Lens: []int{a, b}, N: nw})
				}
			}
		}
	}
	c.Sample("run", c16Case{Entry: "Binary.ReadString", Lens: []int{128}, N: 8133})
	c.Done(fmt.Sprintf("mixed-class runs: all ordered pairs over 12 length classes alternating, 24 decodes each and (pairs up to 8 KiB) a run that wraps the span, %d entry points", len(c16Entries)))
	// ordered triples: a value of a third class between two of the pair moves every later value to another offset
	tri := []int{0, 1, 128, 129, 1024, 4096, 65536}
	if th {
		tri = []int{0, 1, 127, 128, 129, 256, 1024, 4096, 65536, 131072}
	}
	for _, a := range tri {
		for _, b := range tri {
			for _, d := range tri {
				if a == b || b == d || a == d {
					continue
				}
				for _, e := range c16Entries {
					if !c.Mine() {
						continue
					}
					if c.Expired() {
						c.Incomplete("triple-class runs: deadline")
						return
					}
					c.Distinct("triple", e, a, b, d)
					c16One(c, c16Case{Entry: e, Lens: []int{a, b, d}, N: 24})
				}
			}
		}
	}
	c.Done(fmt.Sprintf("triple-class runs: all ordered triples of distinct classes over %d length classes, 24 decodes each, %d entry points", len(tri), len(c16Entries)))
}

func init() {
	Register(&Check{
		ID: "C16", Level: "exploration",
		Rule:        "for every value length class across the span allocator's size classes (0, <128 B, both edges of each class up to 128 KiB, 1 MiB, 1 MiB+1) a run of consecutive decodes from one input long enough to wrap the 1 MiB span, all results retained; all ordered pairs of classes alternating (24 decodes, and a span-wrapping run for pairs up to 8 KiB) and all ordered triples of distinct classes, on every entry point; entry points Binary.ReadBinary/ReadString, BufferReader.ReadBinary/ReadString over bytes and stream readers (with Release between decodes), Base.FastRead and ApplicationException.FastRead (also into values that already hold the arriving message), ConvertUnknownFields; both span-cache settings; oracle = values unchanged after the input is overwritten and pool buffers are recycled+scribbled, capacity ranges pairwise disjoint and disjoint from the input (sorted address sweep), siblings and input unchanged after append/overwrite; distinct = distinct (entry, length classes)",
		Assumptions: []string{"the span-cache switch is a process-wide global: each run toggles it sequentially inside a single-threaded worker and installs a fresh span cache"},
		Run:         c16Run,
		Replay: func(c *mc.Ctx, sub string, raw json.RawMessage) {
			replayAs(raw, func(k c16Case) {
				setAllocCap(256 << 20)
				c16One(c, k)
			})
		},
	})
}
