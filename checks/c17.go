package checks

import (
	"encoding/hex"
	"encoding/json"
	"errors"
	"fmt"
	"io"

	"github.com/bytedance/gopkg/lang/mcache"
	"github.com/cloudwego/gopkg/bufiox"
	"github.com/cloudwego/gopkg/protocol/thrift"

	"verif/gen"
	"verif/mc"
	"verif/ref"
)

// C17 — decode failures carry the Thrift exception type for their cause.

const (
	tidInvalidData  = 1
	tidNegativeSize = 2
	tidBadVersion   = 4
	tidDepthLimit   = 6
)

type c17Case struct {
	Span     bool   `json:"span_cache,omitempty"`
	Fn       string `json:"fn"`
	Type     int8   `json:"type,omitempty"`
	InputHex string `json:"input_hex"`
	Desc     string `json:"desc,omitempty"`
}

// c17Fns: in-memory functions; each returns the error of the call.
var c17Fns = map[string]func(b []byte, t int8) error{
	"ReadBool":         func(b []byte, _ int8) error { _, _, e := thrift.Binary.ReadBool(b); return e },
	"ReadByte":         func(b []byte, _ int8) error { _, _, e := thrift.Binary.ReadByte(b); return e },
	"ReadI16":          func(b []byte, _ int8) error { _, _, e := thrift.Binary.ReadI16(b); return e },
	"ReadI32":          func(b []byte, _ int8) error { _, _, e := thrift.Binary.ReadI32(b); return e },
	"ReadI64":          func(b []byte, _ int8) error { _, _, e := thrift.Binary.ReadI64(b); return e },
	"ReadDouble":       func(b []byte, _ int8) error { _, _, e := thrift.Binary.ReadDouble(b); return e },
	"ReadString":       func(b []byte, _ int8) error { _, _, e := thrift.Binary.ReadString(b); return e },
	"ReadBinary":       func(b []byte, _ int8) error { _, _, e := thrift.Binary.ReadBinary(b); return e },
	"ReadFieldBegin":   func(b []byte, _ int8) error { _, _, _, e := thrift.Binary.ReadFieldBegin(b); return e },
	"ReadMapBegin":     func(b []byte, _ int8) error { _, _, _, _, e := thrift.Binary.ReadMapBegin(b); return e },
	"ReadListBegin":    func(b []byte, _ int8) error { _, _, _, e := thrift.Binary.ReadListBegin(b); return e },
	"ReadSetBegin":     func(b []byte, _ int8) error { _, _, _, e := thrift.Binary.ReadSetBegin(b); return e },
	"ReadMessageBegin": func(b []byte, _ int8) error { _, _, _, _, e := thrift.Binary.ReadMessageBegin(b); return e },
	"Skip":             func(b []byte, t int8) error { _, e := thrift.Binary.Skip(b, thrift.TType(t)); return e },
}

var c17FnOrder = []string{"ReadBool", "ReadByte", "ReadI16", "ReadI32", "ReadI64", "ReadDouble", "ReadString", "ReadBinary", "ReadFieldBegin", "ReadMapBegin", "ReadListBegin", "ReadSetBegin", "ReadMessageBegin", "Skip"}

// c17Admissible: the reference classification. ok=true: the call must succeed (nothing to check here).
// Otherwise ids is the set of admissible protocol-exception type ids.
func c17Admissible(fn string, b []byte, t int8) (mustFail bool, ids []int32, cause string) {
	need := func(n int) (bool, []int32, string) {
		if len(b) < n {
			return true, []int32{tidInvalidData}, "truncated"
		}
		return false, nil, ""
	}
	str := func() (bool, []int32, string) {
		if len(b) < 4 {
			return true, []int32{tidInvalidData}, "truncated"
		}
		n := int32(uint32(b[0])<<24 | uint32(b[1])<<16 | uint32(b[2])<<8 | uint32(b[3]))
		if n < 0 {
			return true, []int32{tidNegativeSize}, "negative size"
		}
		if len(b)-4 < int(n) {
			return true, []int32{tidInvalidData}, "truncated"
		}
		return false, nil, ""
	}
	switch fn {
	case "ReadBool", "ReadByte":
		return need(1)
	case "ReadI16":
		return need(2)
	case "ReadI32":
		return need(4)
	case "ReadI64", "ReadDouble":
		return need(8)
	case "ReadString", "ReadBinary":
		return str()
	case "ReadFieldBegin":
		if len(b) >= 1 && b[0] == 0 {
			return false, nil, ""
		}
		return need(3)
	case "ReadMapBegin":
		return need(6)
	case "ReadListBegin", "ReadSetBegin":
		return need(5)
	case "ReadMessageBegin":
		if len(b) < 4 {
			return true, []int32{tidInvalidData}, "truncated"
		}
		if b[0] != 0x80 || b[1] != 0x01 {
			return true, []int32{tidBadVersion}, "bad version"
		}
		if len(b) < 8 {
			return true, []int32{tidInvalidData}, "truncated"
		}
		n := int32(uint32(b[4])<<24 | uint32(b[5])<<16 | uint32(b[6])<<8 | uint32(b[7]))
		if n < 0 {
			// reported through the generic "buf too small" error of the header reader: both ids are admissible
			return true, []int32{tidNegativeSize, tidInvalidData}, "negative name length"
		}
		if len(b)-8 < int(n)+4 {
			return true, []int32{tidInvalidData}, "truncated"
		}
		return false, nil, ""
	case "Skip":
		r := ref.Skip(b, t)
		if r.OK {
			switch {
			case r.MaxDepth >= 65:
				return true, []int32{tidDepthLimit}, "depth limit"
			case r.MaxDepth == 64:
				return false, []int32{tidDepthLimit}, "boundary zone" // may fail; if it does, with DEPTH_LIMIT
			}
			return false, nil, ""
		}
		if r.MaxDepth >= 64 {
			return true, []int32{tidDepthLimit, tidInvalidData, tidNegativeSize}, "deep and malformed"
		}
		var ids []int32
		if r.Causes&(ref.Truncated|ref.UnknownType) != 0 {
			ids = append(ids, tidInvalidData)
		}
		if r.Causes&ref.NegativeSize != 0 {
			ids = append(ids, tidNegativeSize)
		}
		return true, ids, causeString(r.Causes)
	}
	panic("c17: unknown fn")
}

func c17Mem(c *mc.Ctx, fn string, b []byte, t int8, desc string) {
	c17MemSpan(c, fn, b, t, desc, false)
	if fn == "ReadString" || fn == "ReadBinary" || fn == "ReadMessageBegin" {
		c17MemSpan(c, fn, b, t, desc, true) // the allocator setting must not change the classification
	}
}

func c17MemSpan(c *mc.Ctx, fn string, b []byte, t int8, desc string, span bool) {
	c.Eval(1)
	mustFail, ids, cause := c17Admissible(fn, b, t)
	var err error
	if span {
		thrift.SetSpanCache(true)
		desc += ", span cache on"
	}
	pi := mc.Try(func() { err = c17Fns[fn](b, t) })
	if span {
		thrift.SetSpanCache(false)
	}
	if pi != nil {
		return // panics are C03's business
	}
	if err == nil {
		if mustFail {
			// the cause exists but no failure names it (also reported by C03/C08 from their side)
			c.Violate("mem", fmt.Sprintf("C17|Binary.%s|malformed-input-not-reported:%s", fn, cause), fmt.Sprintf("Binary.%s(type %d) on %s (%s; cause: %s): returned a nil error, so no exception names the cause", fn, t, mc.Hex(b), desc, cause),
				c17Case{Span: span, Fn: fn, Type: t, InputHex: hex.EncodeToString(b), Desc: desc})
		}
		return
	}
	if !mustFail && ids == nil {
		return // spurious rejection is C02/C08's business
	}
	if len(ids) > 1 {
		c.Count("multi-cause-inputs", 1)
	} else {
		c.Count("single-cause-inputs", 1)
	}
	bad := func(class, format string, a ...interface{}) {
		c.Violate("mem", fmt.Sprintf("C17|Binary.%s|%s", fn, class), fmt.Sprintf("Binary.%s(type %d) on %s (%s; cause: %s): ", fn, t, mc.Hex(b), desc, cause)+fmt.Sprintf(format, a...),
			c17Case{Span: span, Fn: fn, Type: t, InputHex: hex.EncodeToString(b), Desc: desc})
	}
	var pe *thrift.ProtocolException
	if !errors.As(err, &pe) {
		bad("not-protocol-exception", "the error %q (%T) is not a protocol exception", err, err)
		return
	}
	for _, id := range ids {
		if pe.TypeId() == id {
			return
		}
	}
	bad(fmt.Sprintf("wrong-type-id:%s", cause), "protocol exception type id %d, admissible for this cause: %v (1=INVALID_DATA 2=NEGATIVE_SIZE 4=BAD_VERSION 6=DEPTH_LIMIT)", pe.TypeId(), ids)
}

// ---- stream part: every cut position x every source error ----

type c17Stream struct {
	Method   string `json:"method"`
	Type     int8   `json:"type,omitempty"`
	ValueHex string `json:"value_hex"`
	Cut      int    `json:"cut"`
	Env      EnvCfg `json:"env"`
	Declared int    `json:"declared_size,omitempty"` // the value is a 4-byte size prefix declaring this many bytes, of which only 70000 exist
}

var c17Methods = map[string]func(r *thrift.BufferReader, t int8) error{
	"ReadBool":         func(r *thrift.BufferReader, _ int8) error { _, e := r.ReadBool(); return e },
	"ReadByte":         func(r *thrift.BufferReader, _ int8) error { _, e := r.ReadByte(); return e },
	"ReadI16":          func(r *thrift.BufferReader, _ int8) error { _, e := r.ReadI16(); return e },
	"ReadI32":          func(r *thrift.BufferReader, _ int8) error { _, e := r.ReadI32(); return e },
	"ReadI64":          func(r *thrift.BufferReader, _ int8) error { _, e := r.ReadI64(); return e },
	"ReadDouble":       func(r *thrift.BufferReader, _ int8) error { _, e := r.ReadDouble(); return e },
	"ReadString":       func(r *thrift.BufferReader, _ int8) error { _, e := r.ReadString(); return e },
	"ReadBinary":       func(r *thrift.BufferReader, _ int8) error { _, e := r.ReadBinary(); return e },
	"ReadFieldBegin":   func(r *thrift.BufferReader, _ int8) error { _, _, e := r.ReadFieldBegin(); return e },
	"ReadMapBegin":     func(r *thrift.BufferReader, _ int8) error { _, _, _, e := r.ReadMapBegin(); return e },
	"ReadListBegin":    func(r *thrift.BufferReader, _ int8) error { _, _, e := r.ReadListBegin(); return e },
	"ReadSetBegin":     func(r *thrift.BufferReader, _ int8) error { _, _, e := r.ReadSetBegin(); return e },
	"ReadMessageBegin": func(r *thrift.BufferReader, _ int8) error { _, _, _, e := r.ReadMessageBegin(); return e },
	"Skip":             func(r *thrift.BufferReader, t int8) error { return r.Skip(thrift.TType(t)) },
}

func c17StreamOne(c *mc.Ctx, k c17Stream, enc []byte) {
	c.Eval(1)
	mcache.VerifReset()
	er := NewEnvReader(enc[:k.Cut], k.Env)
	dr := bufiox.NewDefaultReader(er)
	br := thrift.NewBufferReader(dr) // pooled objects are deliberately kept across cases (stale state must not leak)
	var err error
	pi := mc.Try(func() { err = c17Methods[k.Method](br, k.Type) })
	br.Recycle()
	dr.Release(nil)
	// the failure is kept by the caller while the recycled reader object serves another stream, which fails with a
	// DIFFERENT source error: the first failure must still match its own cause below
	mc.Try(func() {
		dr2 := bufiox.NewDefaultReader(NewEnvReader(nil, EnvCfg{Err: (k.Env.Err + 1) % len(termErrs)}))
		br2 := thrift.NewBufferReader(dr2)
		br2.ReadI32()
		br2.Recycle()
		dr2.Release(nil)
	})
	bad := func(class, format string, a ...interface{}) {
		kk := k
		kk.ValueHex = hex.EncodeToString(enc)
		if k.Declared > 0 {
			kk.ValueHex = ""
		}
		c.Violate("stream", fmt.Sprintf("C17|BufferReader.%s|%s", k.Method, class),
			fmt.Sprintf("BufferReader.%s on a %d-byte value whose stream ends after %d bytes with %s [%s]: ", k.Method, len(enc), k.Cut, termErrNames[k.Env.Err], k.Env)+fmt.Sprintf(format, a...), kk)
	}
	if pi != nil {
		if !pi.IsAllocCap() {
			bad("panic", "panic: %s at %s", pi.Msg, pi.Frame)
		}
		return
	}
	// matching is done by the caller's errors.Is / errors.As: a panic inside them (an Is method comparing values of a
	// non-comparable type with ==) is the failure not being matchable
	if pm := mc.Try(func() {
		E := termErrs[k.Env.Err]
		if err == nil {
			bad("no-error", "the data ran out but the call succeeded")
			return
		}
		if !er.ErrReturned && errors.Is(err, io.ErrNoProgress) {
			return // the reader gave up on a source that kept answering (0, nil) before the source produced its error
		}
		if !errors.Is(err, E) {
			bad("source-error-not-matchable", "the failure %q (%T) does not match the source's error under errors.Is", err, err)
			return
		}
		if (k.Env.Err == 2 || k.Env.Err == 3 || k.Env.Err == 5) && !errors.Is(err, errX) {
			bad("source-error-not-matchable", "the failure %q does not match the wrapped sentinel under errors.Is", err)
			return
		}
		var te *typedErr
		if k.Env.Err == 5 && (!errors.As(err, &te) || te != E) {
			bad("source-error-not-matchable", "the failure %q no longer carries the source's own error value (errors.As to its type fails)", err)
		}
	}); pm != nil {
		bad("source-error-not-matchable", "matching the failure against the source's error with errors.Is panicked: %s at %s", pm.Msg, pm.Frame)
	}
}

func c17Run(c *mc.Ctx) {
	th := c.Thorough()
	setAllocCap(64 << 20)
	// (1) in-memory: grammar-alphabet strings x functions (Skip x 18 types)
	L := 5
	if th {
		L = 6
	}
	buf := make([]byte, 0, 16)
	for n := 0; n <= L; n++ {
		total := int64(1)
		for i := 0; i < n; i++ {
			total *= int64(len(gen.GrammarAlphabet))
		}
		lo, hi := c.Span(total)
		for k := lo; k < hi; k++ {
			if k%4096 == 0 && c.Expired() {
				c.Incomplete("in-memory grammar strings: deadline")
				return
			}
			s := gen.NthString(gen.GrammarAlphabet, n, k, buf[:0])
			for _, fn := range c17FnOrder {
				if fn == "Skip" {
					for _, t := range c08Types {
						c17Mem(c, fn, s, t, "grammar-alphabet string")
					}
					continue
				}
				c17Mem(c, fn, s, 0, "grammar-alphabet string")
			}
		}
		c.DistinctN(hi - lo)
	}
	// first-word sweep for the version check: all 65536 upper halves
	if lo, hi := c.Span(65536); true {
		in := []byte{0, 0, 0, 1, 0, 0, 0, 1, 'm', 0, 0, 0, 7}
		for u := lo; u < hi; u++ {
			in[0], in[1] = byte(u>>8), byte(u)
			c17Mem(c, "ReadMessageBegin", in, 0, "version sweep")
			c17Mem(c, "ReadMessageBegin", in[:5], 0, "version sweep, 5 bytes")
		}
	}
	c.Done(fmt.Sprintf("in-memory: all grammar-alphabet strings up to length %d x 13 Binary.Read* + Skip x 18 types; all 65536 version halves", L))
	// prefixes / perturbations / deep chains on Skip and the readers
	trees := gen.Trees(false, 12)
	for ti := range trees {
		if !c.Mine() {
			continue
		}
		tr := &trees[ti]
		enc, ms := gen.Marks(&tr.V)
		for cut := 0; cut < len(enc); cut++ {
			c17Mem(c, "Skip", enc[:cut], tr.V.T, "prefix of "+tr.Name)
		}
		gen.Perturb(append(enc, 0, 0, 0, 0, 1, 0), ms, false, func(b []byte, d string) bool {
			c.Distinct(b)
			c17Mem(c, "Skip", b, tr.V.T, tr.Name+" with "+d)
			return true
		})
	}
	for _, kind := range []string{"list", "set", "mapkey", "mapval", "struct"} {
		for d := 60; d <= 70; d++ {
			for _, leaf := range []int8{ref.BYTE, ref.STRING} {
				v := gen.Chain(kind, d, leaf)
				c17Mem(c, "Skip", ref.Encode(nil, &v), v.T, fmt.Sprintf("%s chain depth %d", kind, d))
			}
		}
	}
	c.Sample("in-memory", c17Case{Fn: "Skip", Type: ref.LIST, InputHex: "0bffffffff", Desc: "list<string> with negative size"})
	c.Done("in-memory: every prefix and structural perturbation of the value trees, nesting chains 60..70")

	// (2) stream: every cut position x terminal error x end style x chunk policy
	type sv struct {
		method string
		v      ref.Value
		raw    []byte
	}
	var vals []sv
	for _, m := range []struct {
		method string
		t      int8
	}{{"ReadBool", ref.BOOL}, {"ReadByte", ref.BYTE}, {"ReadI16", ref.I16}, {"ReadI32", ref.I32}, {"ReadI64", ref.I64}, {"ReadDouble", ref.DOUBLE}} {
		vals = append(vals, sv{method: m.method, v: gen.Small(m.t, 0)})
	}
	for _, n := range []int{0, 1, 5, 300, 4097, 20000, 40000} {
		s := ref.Value{T: ref.STRING, S: stream(n)}
		vals = append(vals, sv{method: "ReadString", v: s}, sv{method: "ReadBinary", v: s}, sv{method: "Skip", v: s})
	}
	// a struct holding a large string and a list of fixed-size elements larger than 16 KiB / 32 KiB (skipped in one piece)
	bigList := ref.Value{T: ref.LIST, Elem: ref.I64}
	for i := 0; i < 5000; i++ {
		bigList.L = append(bigList.L, ref.Value{T: ref.I64, I: uint64(i)})
	}
	vals = append(vals, sv{method: "Skip", v: bigList}, sv{method: "Skip", v: ref.Value{T: ref.STRUCT, F: []ref.Field{{ID: 1, V: ref.Value{T: ref.STRING, S: stream(20000)}}, {ID: 2, V: bigList}}}})
	vals = append(vals,
		sv{method: "ReadFieldBegin", raw: []byte{0x0b, 0x00, 0x01}},
		sv{method: "ReadMapBegin", raw: []byte{0x0b, 0x0b, 0, 0, 0, 1}},
		sv{method: "ReadListBegin", raw: []byte{0x0b, 0, 0, 0, 1}},
		sv{method: "ReadSetBegin", raw: []byte{0x0b, 0, 0, 0, 1}},
		sv{method: "ReadMessageBegin", raw: ref.MessageBegin(nil, "method", 1, 7)},
		sv{method: "ReadMessageBegin", raw: ref.MessageBegin(nil, "", 2, -1)},
	)
	for _, tr := range gen.Trees(false, 4) {
		if ref.IsContainer(tr.V.T) || tr.V.T == ref.STRING {
			vals = append(vals, sv{method: "Skip", v: tr.V})
		}
	}
	chunks := []int{0, 1, 7}
	var cuts int64
	for vi := range vals {
		if !c.Mine() {
			continue
		}
		if c.Expired() {
			c.Incomplete("stream cuts: deadline")
			return
		}
		v := &vals[vi]
		enc := v.raw
		t := int8(0)
		if enc == nil {
			enc = ref.Encode(nil, &v.v)
			t = v.v.T
		}
		step := 1
		if len(enc) > 600 {
			step = 61 // long values: every 61st cut plus the boundaries below
			if len(enc) > 10000 {
				step = 509
			}
		}
		for cut := 0; cut < len(enc); cut++ {
			if step > 1 && cut%step != 0 && cut > 8 && cut < len(enc)-8 && cut != 4095 && cut != 4096 && cut != 4097 && cut%16384 > 2 && cut%16384 < 16382 {
				continue
			}
			cuts++
			for _, ch := range chunks {
				for _, wl := range []bool{false, true} {
					for e := range termErrs { // innermost: consecutive cases differ in the error value (stale pooled state shows)
						c17StreamOne(c, c17Stream{Method: v.method, Type: t, Cut: cut, Env: EnvCfg{Chunk: ch, ErrWithLast: wl, Err: e, AfterErr: (cut + e) % 2}}, enc)
					}
				}
				if ch == 0 && (cut < 12 || cut%97 == 0) {
					// the source answers N reads with (0, nil) once its data is exhausted and only then returns its error
					for _, tz := range []int{1, 63, 98, 99, 100, 127, 128, 255, 256, 300} {
						c17StreamOne(c, c17Stream{Method: v.method, Type: t, Cut: cut, Env: EnvCfg{TailZeros: tz, Err: (cut + tz) % len(termErrs)}}, enc)
					}
				}
			}
		}
	}
	// values whose DECLARED size is beyond every pre-allocation limit (64 MiB+) on a stream that fails early
	if c.Shard == 0 {
		setAllocCap(512 << 20)
		for _, decl := range []int{64<<20 + 1, 100 << 20} {
			enc := append([]byte{byte(decl >> 24), byte(decl >> 16), byte(decl >> 8), byte(decl)}, stream(70000)...)
			for _, m := range []string{"ReadBinary", "ReadString", "Skip"} {
				for _, cut := range []int{4, 5, 4 + 4096, 4 + 65536, len(enc)} {
					for e := range termErrs {
						c17StreamOne(c, c17Stream{Method: m, Type: ref.STRING, Cut: cut, Env: EnvCfg{Chunk: 0, ErrWithLast: e%2 == 1, Err: e, AfterErr: e % 2}, Declared: decl}, enc)
					}
				}
			}
		}
		setAllocCap(64 << 20)
	}
	c.R.Distinct += cuts
	c.Count("stream-cut-positions", cuts)
	c.Sample("stream", c17Stream{Method: "ReadString", ValueHex: "0000000568656c6c6f", Cut: 6, Env: EnvCfg{Chunk: 1, ErrWithLast: true, Err: 3}})
	c.Done(fmt.Sprintf("stream: %d values x every cut position x 6 terminal errors (incl. one that carries its own Thrift type id and wraps the cause) x 2 end styles x 3 chunk policies on every BufferReader method", len(vals)))
}

func init() {
	Register(&Check{
		ID: "C17", Level: "fault_enumeration",
		Rule: "in-memory: every failing call of the 13 Binary.Read* functions, ReadMessageBegin and Skip met on all grammar-alphabet strings up to length L, all 65536 version halves, every prefix/perturbation of the value trees and nesting chains 60..70, classified by an independent reference into truncated / unknown type / negative size / bad version / depth (multi-cause inputs admit a set of ids); stream: every BufferReader method on streams cut at EVERY byte position x 6 terminal error values x end style x chunk policy: the failure must match the source error under errors.Is; distinct = distinct inputs / cut positions",
		Assumptions: []string{
			"nesting level 64 may fail or succeed; if it fails the id must be DEPTH_LIMIT",
			"a negative name length inside a message header is reported through the header reader's generic error: NEGATIVE_SIZE and INVALID_DATA are both admissible",
			"panics and wrong accept/reject decisions are reported by C03/C08, not here",
		},
		Run: c17Run,
		Replay: func(c *mc.Ctx, sub string, raw json.RawMessage) {
			setAllocCap(64 << 20)
			if sub == "stream" {
				replayAs(raw, func(k c17Stream) {
					enc, _ := hex.DecodeString(k.ValueHex)
					if k.Declared > 0 {
						setAllocCap(512 << 20)
						enc = append([]byte{byte(k.Declared >> 24), byte(k.Declared >> 16), byte(k.Declared >> 8), byte(k.Declared)}, stream(70000)...)
					}
					// the stale-state scenario needs a predecessor: run the same case once with another error value first
					prev := k
					prev.Env.Err = (k.Env.Err + len(termErrs) - 1) % len(termErrs) // the predecessor in the enumeration order
					cc := mc.NewCtx("C17", "quick", 0, 1, 0, 1<<40)
					c17StreamOne(cc, prev, enc)
					c17StreamOne(c, k, enc)
				})
				return
			}
			replayAs(raw, func(k c17Case) {
				b, _ := hex.DecodeString(k.InputHex)
				c17MemSpan(c, k.Fn, b, k.Type, k.Desc, k.Span)
			})
		},
	})
}
