package checks

import (
	"encoding/json"
	"errors"
	"fmt"
	"io"
	"strings"

	"github.com/cloudwego/gopkg/protocol/thrift"

	"verif/mc"
	"verif/ref"
)

// C18 — exception helpers preserve kind, type id and cause (pure functions, whole small product).

type foreignExc struct {
	id  int32
	msg string
}

func (f foreignExc) Error() string { return f.msg }
func (f foreignExc) TypeId() int32 { return f.id }

type c18Case struct {
	Kind   string `json:"kind"`
	TypeID int32  `json:"type_id"`
	Msg    string `json:"msg"`
	Prefix string `json:"prefix"`
	Cause  int    `json:"cause"`
	Wrap   bool   `json:"wrapped_in_fmt_errorf"`
	Target *struct {
		Kind   string `json:"kind"`
		TypeID int32  `json:"type_id"`
		Msg    string `json:"msg"`
		Cause  int    `json:"cause"`
		Self   bool   `json:"same_pointer,omitempty"`
		SameC  bool   `json:"the_wrapped_cause_itself,omitempty"`
	} `json:"is_target,omitempty"`
}

var c18TypeIDs = []int32{0, 1, 2, 3, 4, 5, 6, 7, 8, 9, 10, 11, -1, -2147483648, 2147483647}
var c18Msgs = []string{"", "a", "x: y", string(nonUTF8S)}
var c18Prefixes = []string{"", "p: ", "%d"}

var c18Sentinel = errors.New("sentinel cause")

// multiErr has a non-comparable dynamic type (comparing two interface values holding it with == panics)
type multiErr []error

func (m multiErr) Error() string { return fmt.Sprintf("%d errors", len(m)) }

func c18Cause(i int) error {
	switch i {
	case 1:
		return io.EOF
	case 2:
		return c18Sentinel
	case 3:
		return fmt.Errorf("wrapped: %w", io.EOF)
	case 4:
		return thrift.NewProtocolException(thrift.INVALID_DATA, "inner proto")
	case 5:
		return thrift.NewApplicationException(6, "inner app")
	case 6:
		return errors.New("") // a cause with empty text
	case 7:
		return multiErr{io.EOF, c18Sentinel} // non-comparable dynamic type
	case 8:
		return errors.Join(errors.New("first"), c18Sentinel, io.EOF) // a tree of causes (Unwrap() []error)
	case 9:
		return fmt.Errorf("relay: %w; and %w", thrift.NewApplicationException(6, "inner app"), fmt.Errorf("deeper: %w", io.EOF))
	case 10:
		return foreignExc{4, "a"} // an exception VALUE (comparable): an equal value built elsewhere matches it under errors.Is
	}
	return nil
}

// c18Make builds an error of the given kind.
func c18Make(kind string, id int32, msg string, cause int) error {
	switch kind {
	case "transport":
		return thrift.NewTransportException(id, msg)
	case "protocol":
		return thrift.NewProtocolException(id, msg)
	case "protocol-with-cause":
		return thrift.NewProtocolExceptionWithErr(c18Cause(cause))
	case "application":
		return thrift.NewApplicationException(id, msg)
	case "foreign":
		return foreignExc{id, msg}
	case "foreign-embeds-application":
		return embApp{thrift.NewApplicationException(id, msg), id + 1000}
	case "foreign-embeds-transport":
		return &embTrans{thrift.NewTransportException(id, msg), id ^ 0x1000}
	case "foreign-embeds-protocol":
		return embProto{ProtocolException: thrift.NewProtocolException(id, msg)}
	case "plain":
		return errors.New(msg)
	case "plain-formatter":
		return fmtPlain{msg}
	case "foreign-formatter":
		return fmtForeign{foreignExc{id, msg}}
	case "protocol-reused-as-decode-target":
		// a protocol exception that wraps a cause and was afterwards used as the target of a decode: its type id and
		// message are those decoded, no longer those derived from the cause
		pe := thrift.NewProtocolExceptionWithErr(c18Cause(2))
		st := exceptionStruct(msg, id)
		if _, err := pe.FastRead(ref.Encode(nil, &st)); err != nil {
			panic("c18Make: FastRead into a protocol exception failed: " + err.Error())
		}
		return pe
	case "plain-mutable":
		n := new(int)
		*n = 1
		c18Mutables = append(c18Mutables, n)
		return mutableCause{n}
	case "protocol-with-mutable-cause":
		n := new(int)
		*n = 1
		pe := thrift.NewProtocolExceptionWithErr(mutableCause{n})
		*n = 2 // the cause's text changes after wrapping; the exception keeps the text it was created with
		return pe
	}
	panic("c18Make")
}

var c18Kinds = []string{"transport", "protocol", "protocol-with-cause", "application", "foreign", "plain", "foreign-embeds-application", "foreign-embeds-transport", "foreign-embeds-protocol", "plain-formatter", "foreign-formatter", "protocol-reused-as-decode-target", "protocol-with-mutable-cause", "plain-mutable"}

// user error types that embed one of the library's exceptions (and so inherit its methods) but are types of their own,
// with their own type id
type embApp struct {
	*thrift.ApplicationException
	own int32
}

func (e embApp) TypeId() int32 { return e.own }

type embTrans struct {
	*thrift.TransportException
	own int32
}

func (e *embTrans) TypeId() int32 { return e.own }

type embProto struct {
	Note string
	*thrift.ProtocolException
}

func (e embProto) TypeId() int32 { return e.ProtocolException.TypeId() + 70000 }

// errors that implement fmt.Formatter (pkg/errors style): %v renders more than Error() returns
type fmtPlain struct{ msg string }

func (e fmtPlain) Error() string { return e.msg }
func (e fmtPlain) Format(f fmt.State, verb rune) {
	fmt.Fprintf(f, "%s\n\tat main.go:42 (stack trace)", e.msg)
}

type fmtForeign struct{ foreignExc }

func (e fmtForeign) Format(f fmt.State, verb rune) {
	fmt.Fprintf(f, "foreign(%d): %s [verbose]", e.id, e.msg)
}

// mutableCause is a cause whose text changes after it was wrapped (e.g. an error that reports a counter)
type mutableCause struct{ n *int }

func (m mutableCause) Error() string { return fmt.Sprintf("attempt %d failed", *m.n) }

// counters behind the texts of the mutable errors handed out by c18Make (bumped after PrependError returned)
var c18Mutables []*int

func c18Family(kind string) string {
	if kind == "plain-formatter" || kind == "plain-mutable" {
		return "plain"
	}
	if strings.HasPrefix(kind, "foreign") {
		return "foreign"
	}
	return kind
}

func c18Prepend(c *mc.Ctx, k c18Case) {
	c.Eval(1)
	bad := func(class, format string, a ...interface{}) {
		c.Violate("prepend", "C18|PrependError|"+c18Family(k.Kind)+"|"+class, fmt.Sprintf("PrependError(%q, %s exception type=%d msg=%q cause=%d wrapped=%v): ", k.Prefix, k.Kind, k.TypeID, k.Msg, k.Cause, k.Wrap)+fmt.Sprintf(format, a...), k)
	}
	pi := mc.Try(func() {
		orig := c18Make(k.Kind, k.TypeID, k.Msg, k.Cause)
		in := orig
		if k.Wrap {
			in = fmt.Errorf("outer: %w", orig)
		}
		type msger interface{ Msg() string }
		type tider interface{ TypeId() int32 }
		snap := func(e error) string {
			s := ""
			if m, ok := e.(msger); ok {
				s += fmt.Sprintf("msg=%q ", m.Msg())
			}
			if t, ok := e.(tider); ok {
				s += fmt.Sprintf("id=%d", t.TypeId())
			}
			return s
		}
		before := snap(orig) // taken BEFORE Error() is ever called on it
		wantText := k.Prefix + in.Error()
		origText := in.Error()
		got := thrift.PrependError(k.Prefix, in)
		if after := snap(orig); after != before {
			bad("argument-modified", "the exception passed in was modified by Error()/PrependError: %s -> %s", before, after)
			return
		}
		if in.Error() != origText {
			bad("argument-modified", "PrependError modified the error it was given: text %q -> %q (shared/sentinel errors would accumulate prefixes)", origText, in.Error())
			return
		}

		if got == nil {
			bad("nil", "returned nil")
			return
		}
		if got.Error() != wantText {
			cls := "text"
			if wantText == "" {
				// prefix and original text both empty: the resulting application exception substitutes its default text
				cls = "text:empty-prefix-and-empty-original-text"
			}
			bad(cls, "error text %q, want prefix + original text = %q", got.Error(), wantText)
			return
		}
		// the text of the result is fixed when PrependError returns: it does not follow later changes of the original's text
		for _, n := range c18Mutables {
			*n += 10
		}
		c18Mutables = c18Mutables[:0]
		if got.Error() != wantText {
			bad("result-follows-original", "the text of the returned error changed when the original error's text changed afterwards: %q, want %q", got.Error(), wantText)
			return
		}
		// prepending to a result of PrependError gives a new error and leaves the first result as it was
		got2 := thrift.PrependError("outer: ", got)
		got3 := thrift.PrependError("other: ", got)
		if got2 == nil || got3 == nil || got2.Error() != "outer: "+wantText || got3.Error() != "other: "+wantText || got.Error() != wantText {
			bad("nested-prepend", "prepending twice to a result of PrependError: first result now %q (want %q), second %q (want %q), third %q (want %q)", got.Error(), wantText, got2, "outer: "+wantText, got3, "other: "+wantText)
			return
		}
		// a later, unrelated PrependError must not change an error returned earlier (no shared scratch memory)
		thrift.PrependError("another prefix that is fairly long: ", thrift.NewProtocolException(3, "another message, also fairly long, to overwrite any shared buffer"))
		thrift.PrependError("x", errors.New("y"))
		if got.Error() != wantText {
			bad("result-changed-later", "the text of the returned error changed after a later PrependError call: %q, want %q", got.Error(), wantText)
			return
		}
		if again := thrift.PrependError(k.Prefix, in); again == nil || again.Error() != k.Prefix+in.Error() {
			bad("argument-modified", "a second PrependError on the same error gives %q, want %q", again, k.Prefix+in.Error())
			return
		}
		kind := c18Family(k.Kind)
		if k.Wrap {
			kind = "plain" // a wrapped chain is a plain error for PrependError's purposes
		}
		type tid interface{ TypeId() int32 }
		wantID := int32(0)
		if t, ok := orig.(tid); ok {
			wantID = t.TypeId()
		}
		switch kind {
		case "transport":
			g, ok := got.(*thrift.TransportException)
			if !ok {
				bad("kind", "result has dynamic type %T, want *TransportException", got)
			} else if g.TypeId() != wantID {
				bad("type-id", "type id %d, want %d", g.TypeId(), wantID)
			}
		case "protocol", "protocol-with-cause", "protocol-reused-as-decode-target", "protocol-with-mutable-cause":
			g, ok := got.(*thrift.ProtocolException)
			if !ok {
				bad("kind", "result has dynamic type %T, want *ProtocolException", got)
			} else if g.TypeId() != wantID {
				bad("type-id", "type id %d, want %d", g.TypeId(), wantID)
			}
		case "application", "foreign":
			g, ok := got.(*thrift.ApplicationException)
			if !ok {
				bad("kind", "result has dynamic type %T, want *ApplicationException", got)
			} else if g.TypeId() != wantID {
				bad("type-id", "type id %d, want %d", g.TypeId(), wantID)
			}
		default:
			if _, isExc := got.(tid); isExc {
				bad("kind", "a plain error became an exception of type %T", got)
			}
		}
	})
	if pi != nil {
		bad("panic", "panic: %s at %s", pi.Msg, pi.Frame)
	}
}

func c18WithErr(c *mc.Ctx, k c18Case) {
	c.Eval(1)
	bad := func(class, format string, a ...interface{}) {
		c.Violate("witherr", "C18|NewProtocolExceptionWithErr|"+class, fmt.Sprintf("NewProtocolExceptionWithErr(%s type=%d msg=%q cause=%d wrapped=%v): ", k.Kind, k.TypeID, k.Msg, k.Cause, k.Wrap)+fmt.Sprintf(format, a...), k)
	}
	pi := mc.Try(func() {
		e := c18Make(k.Kind, k.TypeID, k.Msg, k.Cause)
		if k.Wrap {
			e = fmt.Errorf("outer: %w", e)
		}
		got := thrift.NewProtocolExceptionWithErr(e)
		if pe, ok := e.(*thrift.ProtocolException); ok {
			if got != pe {
				bad("not-identity", "not the identity on an error that already is a protocol exception")
			}
			return
		}
		if got == nil {
			bad("nil", "returned nil")
			return
		}
		if errors.Unwrap(got) != e {
			bad("unwrap", "errors.Unwrap does not return the wrapped error (got %v)", errors.Unwrap(got))
			return
		}
		if !errors.Is(got, e) {
			bad("is", "errors.Is(result, cause) is false")
			return
		}
		if k.Wrap || k.Kind == "plain" {
			inner := errors.Unwrap(e)
			if inner != nil && !errors.Is(got, inner) {
				bad("is", "the inner cause of the wrapped chain is not reachable through errors.Is")
			}
		}
	})
	if pi != nil {
		bad("panic", "panic: %s at %s", pi.Msg, pi.Frame)
	}
}

// reference predicate for (*ProtocolException).Is
func c18RefIs(pe *thrift.ProtocolException, cause error, t error) bool {
	if error(pe) == t {
		return true // errors.Is compares for identity before calling Is
	}
	type texc interface {
		Error() string
		TypeId() int32
	}
	if x, ok := t.(texc); ok && x.TypeId() == pe.TypeId() && x.Error() == pe.Msg() {
		return true
	}
	return cause != nil && errors.Is(cause, t)
}

func c18Is(c *mc.Ctx, k c18Case) {
	c.Eval(1)
	bad := func(class, format string, a ...interface{}) {
		c.Violate("is", "C18|ProtocolException.Is|"+class, fmt.Sprintf("protocol exception (type=%d msg=%q cause=%d) vs target %+v: ", k.TypeID, k.Msg, k.Cause, *k.Target)+fmt.Sprintf(format, a...), k)
	}
	pi := mc.Try(func() {
		var pe *thrift.ProtocolException
		var cause error
		if k.Kind == "protocol-with-cause" {
			cause = c18Cause(k.Cause)
			if _, isPE := cause.(*thrift.ProtocolException); isPE {
				return // identity case, no wrapping happens
			}
			pe = thrift.NewProtocolExceptionWithErr(cause)
		} else {
			pe = thrift.NewProtocolException(k.TypeID, k.Msg)
		}
		var t error
		if k.Target.Self {
			t = pe
		} else if k.Target.SameC {
			t = cause // the very error that was wrapped (nil without a cause: skipped below)
		} else if k.Target.Kind == "cause" {
			t = c18Cause(k.Target.Cause)
		} else {
			t = c18Make(k.Target.Kind, k.Target.TypeID, k.Target.Msg, k.Target.Cause)
		}
		if t == nil {
			return
		}
		want := c18RefIs(pe, cause, t)
		if got := errors.Is(pe, t); got != want {
			bad(fmt.Sprintf("want-%v", want), "errors.Is = %v, want %v (matches any exception whose type id and error text equal its own type id and message, otherwise exactly when its cause matches)", got, want)
			return
		}
		// the Is method called directly (as wrappers and older helper libraries do) gives the same answer
		wantDirect := want
		if error(pe) == t {
			wantDirect = c18RefIs(thrift.NewProtocolException(pe.TypeId(), pe.Msg()), cause, t) // no identity shortcut in a direct call
		}
		if got := pe.Is(t); got != wantDirect {
			bad(fmt.Sprintf("direct-want-%v", wantDirect), "the Is method called directly = %v while errors.Is(cause, target) / the type-id-and-text rule give %v", got, wantDirect)
		}
	})
	if pi != nil {
		bad("panic", "panic: %s at %s", pi.Msg, pi.Frame)
	}
}

func c18Run(c *mc.Ctx) {
	for _, kind := range c18Kinds {
		for _, id := range c18TypeIDs {
			for _, msg := range c18Msgs {
				causes := []int{0}
				if kind == "protocol-with-cause" {
					causes = []int{1, 2, 3, 4, 5, 6, 7, 8, 9, 10}
				}
				for _, cause := range causes {
					for _, wrap := range []bool{false, true} {
						if !c.Mine() {
							continue
						}
						k := c18Case{Kind: kind, TypeID: id, Msg: msg, Cause: cause, Wrap: wrap}
						c.Distinct("e", kind, id, msg, cause, wrap)
						c18WithErr(c, k)
						for _, p := range c18Prefixes {
							k.Prefix = p
							c18Prepend(c, k)
						}
					}
				}
			}
		}
	}
	c.Done("PrependError / NewProtocolExceptionWithErr: 9 error kinds (incl. user types embedding each library exception) x 15 type ids x 4 messages x 10 causes (incl. joined / multi-%w trees) x {bare, wrapped in fmt.Errorf} x 3 prefixes")
	// errors.Is: all ordered pairs (protocol exception, target)
	type tgt = struct {
		Kind   string `json:"kind"`
		TypeID int32  `json:"type_id"`
		Msg    string `json:"msg"`
		Cause  int    `json:"cause"`
		Self   bool   `json:"same_pointer,omitempty"`
		SameC  bool   `json:"the_wrapped_cause_itself,omitempty"`
	}
	ids := []int32{0, 1, 4, -1}
	var targets []tgt
	for _, kind := range []string{"transport", "protocol", "application", "foreign", "plain"} {
		for _, id := range ids {
			for _, msg := range c18Msgs {
				targets = append(targets, tgt{Kind: kind, TypeID: id, Msg: msg})
			}
		}
	}
	for cs := 1; cs <= 10; cs++ {
		targets = append(targets, tgt{Kind: "cause", Cause: cs}, tgt{Kind: "protocol-with-cause", Cause: cs})
	}
	// default-text targets: an application exception with an empty message reports the default text for its id
	targets = append(targets, tgt{Kind: "application", TypeID: 1, Msg: "unknown method"}, tgt{Kind: "protocol", TypeID: 1, Msg: "unknown method"}, tgt{Self: true}, tgt{SameC: true})
	for _, id := range ids {
		for _, msg := range append(c18Msgs, "unknown method", "sentinel cause", "EOF") {
			for ti := range targets {
				if !c.Mine() {
					continue
				}
				t := targets[ti]
				c.Distinct("is", id, msg, ti)
				c18Is(c, c18Case{Kind: "protocol", TypeID: id, Msg: msg, Target: (*struct {
					Kind   string `json:"kind"`
					TypeID int32  `json:"type_id"`
					Msg    string `json:"msg"`
					Cause  int    `json:"cause"`
					Self   bool   `json:"same_pointer,omitempty"`
					SameC  bool   `json:"the_wrapped_cause_itself,omitempty"`
				})(&t)})
			}
		}
	}
	for cs := 1; cs <= 10; cs++ {
		for ti := range targets {
			if !c.Mine() {
				continue
			}
			t := targets[ti]
			c.Distinct("isc", cs, ti)
			c18Is(c, c18Case{Kind: "protocol-with-cause", Cause: cs, Target: (*struct {
				Kind   string `json:"kind"`
				TypeID int32  `json:"type_id"`
				Msg    string `json:"msg"`
				Cause  int    `json:"cause"`
				Self   bool   `json:"same_pointer,omitempty"`
				SameC  bool   `json:"the_wrapped_cause_itself,omitempty"`
			})(&t)})
		}
	}
	c.Sample("is", map[string]interface{}{"exception": "protocol(type=1,msg=\"\")", "target": "application(type=1,msg=\"\") whose Error() is the default text"})
	c.Done(fmt.Sprintf("errors.Is: all ordered pairs of (protocol exception with/without cause) x %d targets", len(targets)))
}

func init() {
	Register(&Check{
		ID: "C18", Level: "exploration", Shards: 4,
		Rule:        "whole product: 9 error kinds (transport, protocol, protocol-with-cause, application, foreign type exposing TypeId, plain, user types embedding each of the three library exceptions) x 15 type ids x 4 messages incl. empty and non-UTF-8 x 6 causes (io.EOF, sentinel, wrapped chain, another protocol exception, an application exception, empty-text error, non-comparable, errors.Join tree, multi-%w tree) x {bare, wrapped in fmt.Errorf} x 3 prefixes for PrependError / NewProtocolExceptionWithErr; errors.Is and the Is method called directly over all ordered pairs (protocol exception, target) incl. identity, default-text targets and causes; distinct = distinct parameter tuples",
		Assumptions: []string{"errors.Is compares for identity before consulting the Is method (standard library behaviour), so an exception always matches itself"},
		Run:         c18Run,
		Replay: func(c *mc.Ctx, sub string, raw json.RawMessage) {
			replayAs(raw, func(k c18Case) {
				switch sub {
				case "prepend":
					c18Prepend(c, k)
				case "witherr":
					c18WithErr(c, k)
				default:
					c18Is(c, k)
				}
			})
		},
	})
}
