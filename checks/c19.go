package checks

import (
	"bytes"
	"context"
	"encoding/json"
	"errors"
	"fmt"
	"github.com/cloudwego/gopkg/protocol/thrift"
	"github.com/cloudwego/gopkg/protocol/thrift/base"
	"io"
	"math"

	"github.com/cloudwego/gopkg/bufiox"
	"github.com/cloudwego/gopkg/protocol/thrift/apache"

	"verif/mc"
	"verif/vdump"
)

// C19 — apache bridge: buffer transport is the buffer; callbacks pass through.
// Explicit-state search over histories of operations on the two handles (transport T, buffer B)
// of one bytes.Buffer, against a byte-FIFO reference model.

type c19Sys struct {
	ctor string // NewBufferTransport | NewDefaultTransport
	ops  []c19Op
	B    *bytes.Buffer
	fr   *c19Frame
	T    apache.TTransport
	fifo []byte
	wn   int
	dead bool
	// bytes.Buffer lets the caller push back the last byte read, if the last operation on the buffer was a read that
	// returned something; the transport IS the buffer, so that holds across both handles
	canUnread bool
	lastByte  byte
}

type c19Op struct {
	kind string // Twrite Bwrite Tread Bread Breset Tclose Tmisc
	n    int
}

func (o c19Op) String() string { return fmt.Sprintf("%s(%d)", o.kind, o.n) }

var c19Payloads = [][]byte{{}, []byte("a"), []byte("bcd"), bytes.Repeat([]byte("0123456789"), 10), bytes.Repeat([]byte("0123456789abcdef"), 4400)} // the last one is > 64 KiB
var c19Reads = []int{0, 1, 2, 200, 100000}

// c19Frame: the caller's bytes.Buffer lives inside a larger object of the caller's (a connection struct, an array of
// buffers); the memory right before and after it is not the transport's.
type c19Frame struct {
	pre  [32]byte
	B    bytes.Buffer
	post [32]byte
}

func newC19Sys(ctor string) *c19Sys {
	s := &c19Sys{ctor: ctor}
	for i := range c19Payloads {
		s.ops = append(s.ops, c19Op{"Twrite", i}, c19Op{"Bwrite", i})
	}
	for _, n := range c19Reads {
		s.ops = append(s.ops, c19Op{"Tread", n}, c19Op{"Bread", n})
	}
	s.ops = append(s.ops, c19Op{"Breset", 0}, c19Op{"Tclose", 0}, c19Op{"Tmisc", 0}, c19Op{"Bunread", 0}, c19Op{"Tcopy", 2}, c19Op{"Tcopy", 4})
	return s
}

func (s *c19Sys) NumOps() int         { return len(s.ops) }
func (s *c19Sys) Enabled(op int) bool { return !s.dead }
func (s *c19Sys) Reset() {
	s.fr = &c19Frame{}
	for i := range s.fr.pre {
		s.fr.pre[i], s.fr.post[i] = 0xC3, 0xC3
	}
	s.B = &s.fr.B
	if s.ctor == "NewBufferTransport" {
		s.T = apache.NewBufferTransport(s.B)
	} else {
		s.T = apache.NewDefaultTransport(s.B)
	}
	s.fifo, s.wn, s.dead, s.canUnread = s.fifo[:0], 0, false, false
}
func (s *c19Sys) Key() string {
	u := "-"
	if s.canUnread {
		u = fmt.Sprintf("u%02x", s.lastByte)
	}
	// the REAL buffer's private state (read by reflection) is part of the key: two histories are merged only if the object
	// itself is in the same state, not merely the model of it
	real := vdump.Key(s.B, vdump.Opt{Content: true})
	if len(s.fifo) > 256 {
		return fmt.Sprintf("%s%d:%s|%s", u, len(s.fifo), digest(s.fifo), real)
	}
	return u + string(s.fifo) + "|" + real
}

func (s *c19Sys) stampPayload(i int) []byte {
	p := append([]byte{}, c19Payloads[i]...)
	for j := range p {
		p[j] = byte('A' + (s.wn+j)%26)
	}
	s.wn++
	return p
}

func (s *c19Sys) Apply(op int, check bool) (what, sig string) {
	o := s.ops[op]
	fail := func(class, format string, a ...interface{}) {
		if what == "" {
			what = fmt.Sprintf("%s: ", o) + fmt.Sprintf(format, a...)
			sig = o.kind + "|" + class
			s.dead = true
		}
	}
	pi := mc.Try(func() {
		switch o.kind {
		case "Twrite", "Bwrite":
			p := s.stampPayload(o.n)
			var n int
			var err error
			if o.kind == "Twrite" {
				n, err = s.T.Write(p)
			} else {
				n, err = s.B.Write(p)
			}
			if n != len(p) || err != nil {
				fail("write-result", "Write(%d bytes) = (%d, %v)", len(p), n, err)
				return
			}
			s.fifo = append(s.fifo, p...)
			s.canUnread = false
		case "Tcopy":
			// io.Copy into the transport from a size-limited reader whose limit is far beyond the data (and beyond anything
			// that could be allocated): the data arrives, like in a copy into the plain buffer
			p := s.stampPayload(o.n)
			n, err := io.Copy(s.T, io.LimitReader(bytes.NewReader(p), math.MaxInt64))
			if n != int64(len(p)) || err != nil {
				fail("copy-result", "io.Copy(transport, LimitReader(%d bytes, MaxInt64)) = (%d, %v)", len(p), n, err)
				return
			}
			s.fifo = append(s.fifo, p...)
			s.canUnread = false
		case "Bunread":
			err := s.B.UnreadByte()
			if s.canUnread {
				if err != nil {
					fail("unread", "UnreadByte right after a read that returned data failed: %v", err)
					return
				}
				s.fifo = append([]byte{s.lastByte}, s.fifo...)
			} else if err == nil {
				fail("unread", "UnreadByte succeeded although the last operation on the buffer was not a read that returned data (after a Close / Reset / write the buffer has nothing to give back)")
				return
			}
			s.canUnread = false
		case "Tread", "Bread":
			p := make([]byte, o.n)
			var n int
			var err error
			if o.kind == "Tread" {
				n, err = s.T.Read(p)
			} else {
				n, err = s.B.Read(p)
			}
			want := len(s.fifo)
			if want > o.n {
				want = o.n
			}
			if n != want || !bytes.Equal(p[:n], s.fifo[:want]) {
				fail("read-bytes", "Read(%d) returned %d bytes %q, the buffer holds %q", o.n, n, p[:n], s.fifo)
				return
			}
			if len(s.fifo) == 0 && o.n > 0 && err != io.EOF {
				fail("read-eof", "Read on an empty buffer returned %v, want io.EOF", err)
				return
			}
			s.canUnread = n > 0
			if n > 0 {
				s.lastByte = p[n-1]
			}
			s.fifo = s.fifo[want:]
		case "Breset":
			s.B.Reset()
			s.fifo = s.fifo[:0]
			s.canUnread = false
		case "Tclose":
			if err := s.T.Close(); err != nil {
				fail("close-error", "Close returned %v", err)
				return
			}
			s.fifo = s.fifo[:0]
			s.canUnread = false
		case "Tmisc":
			// IsOpen/Open/Flush: their results are not part of the property; they must not disturb the buffer (checked below)
			s.T.IsOpen()
			s.T.Open()
			s.T.Flush(context.Background())
		}
		// observable state through both handles after every step
		if got := s.T.RemainingBytes(); got != uint64(len(s.fifo)) {
			fail("remaining-bytes", "RemainingBytes() = %d, the buffer's unread length is %d", got, len(s.fifo))
			return
		}
		if s.B.Len() != len(s.fifo) || !bytes.Equal(s.B.Bytes(), s.fifo) {
			fail("handles-diverge", "the buffer handle sees %q, expected %q", s.B.Bytes(), s.fifo)
			return
		}
		for i := range s.fr.pre {
			if s.fr.pre[i] != 0xC3 || s.fr.post[i] != 0xC3 {
				fail("neighbour-memory", "memory next to the caller's bytes.Buffer (which sits inside a larger struct) was modified: the transport is more than the buffer")
				return
			}
		}
	})
	if pi != nil {
		what, sig = "", ""
		fail("panic", "panic: %s at %s", pi.Msg, pi.Frame)
	}
	return
}

type c19Case struct {
	Ctor string   `json:"constructor"`
	Ops  []int    `json:"ops"`
	Hist []string `json:"history"`
}

type c19RL struct {
	Full      bool  `json:"wrapped_object_is_itself_a_transport,omitempty"`
	LenOnly   bool  `json:"wrapped_object_has_Len_but_not_ReadableLen,omitempty"`
	Two       bool  `json:"second_transport_created_after_close_of_the_first,omitempty"`
	HasMethod bool  `json:"has_readable_len"`
	N         int   `json:"readable_len"`
	Later     []int `json:"later_values,omitempty"` // the wrapped object's readable length changes after it was wrapped
}

type rwPlain struct{ bytes.Buffer }
type rwLen struct {
	buf bytes.Buffer
	n   int
}

func (r *rwLen) Read(p []byte) (int, error)  { return r.buf.Read(p) }
func (r *rwLen) Write(p []byte) (int, error) { return r.buf.Write(p) }
func (r *rwLen) ReadableLen() int            { return r.n }

// fullT is a user object that happens to implement every method of the transport interface itself (with its own,
// different answers); wrapped in a generic transport it is still just the wrapped io.ReadWriter.
type fullT struct {
	b      *bytes.Buffer
	rl     int
	hasRL  bool
	closed int
}

func (r *fullT) Read(p []byte) (int, error)    { return r.b.Read(p) }
func (r *fullT) Write(p []byte) (int, error)   { return r.b.Write(p) }
func (r *fullT) RemainingBytes() uint64        { return 42 }
func (r *fullT) IsOpen() bool                  { return r.closed == 0 }
func (r *fullT) Open() error                   { return errors.New("fullT: cannot reopen") }
func (r *fullT) Close() error                  { r.closed++; r.b.Reset(); return nil }
func (r *fullT) Flush(_ context.Context) error { return errors.New("fullT: flush fails") }

type fullTRL struct{ *fullT }

func (r fullTRL) ReadableLen() int { return r.rl }

// lenRW has a Len() method (like bytes.Buffer, strings.Reader, ring buffers) but NOT the ReadableLen() the generic transport
// looks for: its remaining-bytes figure is "unknown"
type lenRW struct{ b *bytes.Buffer }

func (r lenRW) Read(p []byte) (int, error)  { return r.b.Read(p) }
func (r lenRW) Write(p []byte) (int, error) { return r.b.Write(p) }
func (r lenRW) Len() int                    { return r.b.Len() + 5 }
func (r lenRW) Size() int64                 { return 77 }
func (r lenRW) Available() int              { return 9 }

type plainRW struct{ b *bytes.Buffer }

func (r plainRW) Read(p []byte) (int, error)  { return r.b.Read(p) }
func (r plainRW) Write(p []byte) (int, error) { return r.b.Write(p) }

func c19ReadableLen(c *mc.Ctx, k c19RL) {
	c.Eval(1)
	bad := func(class, format string, a ...interface{}) {
		c.Violate("generic", "C19|generic|"+class, fmt.Sprintf("generic transport over an object with ReadableLen()=%d (has method: %v; is itself a transport: %v): ", k.N, k.HasMethod, k.Full)+fmt.Sprintf(format, a...), k)
	}
	pi := mc.Try(func() {
		var rw io.ReadWriter
		var inner *bytes.Buffer
		if k.Full {
			inner = &bytes.Buffer{}
			f := &fullT{b: inner, rl: k.N}
			rw = f
			if k.HasMethod {
				rw = fullTRL{f}
			}
		} else if k.HasMethod {
			x := &rwLen{n: k.N}
			rw, inner = x, &x.buf
		} else if k.LenOnly {
			inner = bytes.NewBufferString("0123456789")
			rw = lenRW{inner}
		} else {
			inner = &bytes.Buffer{}
			rw = plainRW{inner}
		}
		if k.Two {
			// an earlier generic transport over ANOTHER object was closed (twice) before this one was created, and is used
			// again afterwards: the two handles stay independent
			otherBuf := &bytes.Buffer{}
			other := apache.NewDefaultTransport(&rwLen{n: 1234})
			other.Close()
			other.Close()
			defer func() {
				_ = otherBuf
				if got := other.RemainingBytes(); got != 1234 {
					bad("handles-mixed", "a generic transport that was closed earlier now reports RemainingBytes() = %d, its wrapped object says 1234: it shares state with a transport created later", got)
				}
			}()
		}
		t := apache.NewDefaultTransport(rw)
		want := ^uint64(0)
		if k.HasMethod && k.N > 0 {
			want = uint64(k.N)
		}
		if got := t.RemainingBytes(); got != want {
			bad("remaining-bytes", "RemainingBytes() = %d, want %d (the positive readable length, otherwise 'unknown' = max uint64)", got, want)
			return
		}
		for _, n := range k.Later {
			if x, ok := rw.(*rwLen); ok {
				x.n = n
				w2 := ^uint64(0)
				if n > 0 {
					w2 = uint64(n)
				}
				if got := t.RemainingBytes(); got != w2 {
					bad("remaining-bytes-later", "after the wrapped object's readable length changed to %d: RemainingBytes() = %d, want %d", n, got, w2)
					return
				}
			}
		}
		if k.LenOnly {
			return
		}
		if n, err := t.Write([]byte("xyz")); n != 3 || err != nil || inner.String() != "xyz" {
			bad("passthrough", "Write does not pass through to the wrapped object")
			return
		}
		p := make([]byte, 2)
		if n, err := t.Read(p); n != 2 || err != nil || string(p) != "xy" {
			bad("passthrough", "Read does not pass through to the wrapped object")
			return
		}
		// Close/IsOpen/Open/Flush of a generic transport: results unspecified by the property; they must not fail hard
		t.IsOpen()
		t.Open()
		t.Flush(context.Background())
		t.Close()
	})
	if pi != nil {
		bad("panic", "panic: %s at %s", pi.Msg, pi.Frame)
	}
}

type c19CB struct {
	Which string `json:"callback"` // check | read | write
	Steps []int  `json:"steps"`    // 0 register f1, 1 register f2, 2 register nil, 3 call
	Index int    `json:"index"`    // position in the deterministic enumeration: the bridges keep process-global state, so a replay runs cases 0..Index
}

// c19Cross: sequences over ALL three bridges at once (a registration of one must not disturb another).
// step = bridge*2 + action; action 0 = register a fresh callback, 1 = call.
func c19Cross(c *mc.Ctx, k c19CB) {
	c.Eval(1)
	bad := func(class, format string, a ...interface{}) {
		c.Violate("cross", "C19|callback-cross|"+class, fmt.Sprintf("bridges check/read/write, steps %v (step = bridge*2 + {0 register, 1 call}): ", k.Steps)+fmt.Sprintf(format, a...), k)
	}
	apache.RegisterCheckTStruct(nil)
	apache.RegisterThriftRead(nil)
	apache.RegisterThriftWrite(nil)
	reg := [3]int{}
	calls := [3]int{}
	ran := [3]int{} // how often each bridge's callback ran, ever
	rets := map[int]error{}
	pi := mc.Try(func() {
		for si, st := range k.Steps {
			b, act := st/2, st%2
			if act == 0 {
				reg[b] = si + 1
				id := si + 1
				var ret error
				if (si+b)%2 == 0 {
					ret = fmt.Errorf("result of the callback registered at step %d", si)
				}
				rets[id] = ret
				switch b {
				case 0:
					apache.RegisterCheckTStruct(func(v interface{}) error { calls[0] = id; ran[0]++; return ret })
				case 1:
					apache.RegisterThriftRead(func(r bufiox.Reader, v interface{}) error { calls[1] = id; ran[1]++; return ret })
				default:
					apache.RegisterThriftWrite(func(w bufiox.Writer, v interface{}) error { calls[2] = id; ran[2]++; return ret })
				}
				continue
			}
			calls[b] = 0
			before := ran
			var err error
			switch b {
			case 0:
				err = apache.CheckTStruct(si)
			case 1:
				err = apache.ThriftRead(nil, si)
			default:
				err = apache.ThriftWrite(nil, si)
			}
			name := []string{"check", "read", "write"}[b]
			for o := 0; o < 3; o++ {
				if o != b && ran[o] != before[o] {
					bad("foreign-callback-ran", "step %d: calling the %s bridge ran the %s callback as well", si, name, []string{"check", "read", "write"}[o])
					return
				}
			}
			if reg[b] == 0 {
				if err == nil || calls[b] != 0 {
					bad("unregistered", "step %d: the %s callback was never registered but the call returned %v (callback ran: %v)", si, name, err, calls[b] != 0)
					return
				}
			} else if calls[b] != reg[b] || ran[b] != before[b]+1 {
				bad("lost-registration", "step %d: the %s callback registered at step %d did not run exactly once (ran #%d, %d times, err %v) — a registration of another bridge disturbed it", si, name, reg[b]-1, calls[b]-1, ran[b]-before[b], err)
				return
			} else if err != rets[reg[b]] {
				bad("result", "step %d: the %s callback returned %v but the bridge returned %v", si, name, rets[reg[b]], err)
				return
			}
		}
	})
	if pi != nil {
		bad("panic", "panic: %s at %s", pi.Msg, pi.Frame)
	}
	apache.RegisterCheckTStruct(nil)
	apache.RegisterThriftRead(nil)
	apache.RegisterThriftWrite(nil)
}

func c19CallbackCases() []c19CB {
	var out []c19CB
	var rec func(steps []int)
	rec = func(steps []int) {
		if len(steps) > 0 {
			for _, w := range []string{"check", "read", "write"} {
				out = append(out, c19CB{Which: w, Steps: append([]int{}, steps...), Index: len(out)})
			}
		}
		if len(steps) == 4 {
			return
		}
		for st := 0; st < 4; st++ {
			rec(append(steps, st))
		}
	}
	rec(nil)
	return out
}

var errCBA = errors.New("callback error A")

// c19Bait has the methods generated structs have; each records that it was called.
type c19Bait struct {
	X       int
	S       string
	touched []string
}

func (b *c19Bait) rec(m string) {
	if b != nil {
		b.touched = append(b.touched, m)
	}
}
func (b *c19Bait) InitDefault()                   { b.rec("InitDefault"); b.X, b.S = 0, "" }
func (b *c19Bait) Reset()                         { b.rec("Reset"); b.X, b.S = 0, "" }
func (b *c19Bait) Clear()                         { b.rec("Clear"); b.X, b.S = 0, "" }
func (b *c19Bait) Recycle()                       { b.rec("Recycle") }
func (b *c19Bait) String() string                 { b.rec("String"); return "bait" }
func (b *c19Bait) IsNil() bool                    { b.rec("IsNil"); return b == nil }
func (b *c19Bait) BLength() int                   { b.rec("BLength"); return 1 }
func (b *c19Bait) FastRead(p []byte) (int, error) { b.rec("FastRead"); return 0, nil }
func (b *c19Bait) FastWrite(p []byte) int         { b.rec("FastWrite"); return 0 }
func (b *c19Bait) FastWriteNocopy(p []byte, w thrift.NocopyWriter) int {
	b.rec("FastWriteNocopy")
	return 0
}

type c19Val struct{ X int }

func c19Callbacks(c *mc.Ctx, k c19CB) {
	c.Eval(1)
	bad := func(class, format string, a ...interface{}) {
		c.Violate("callback", "C19|callback|"+k.Which+"|"+class, fmt.Sprintf("%s callback, steps %v (0=register f1, 1=register f2, 2=register nil, 3=call): ", k.Which, k.Steps)+fmt.Sprintf(format, a...), k)
	}
	// the registration state is process-global: start from "unregistered"
	apache.RegisterCheckTStruct(nil)
	apache.RegisterThriftRead(nil)
	apache.RegisterThriftWrite(nil)
	type rec struct {
		who  int
		a, b interface{}
	}
	var calls []rec
	cur := 0 // 0 none, 1 f1, 2 f2
	rets := map[int]error{1: nil, 2: errCBA}
	reg := func(who int) {
		ret := rets[who]
		switch k.Which {
		case "check":
			if who == 0 {
				apache.RegisterCheckTStruct(nil)
			} else {
				apache.RegisterCheckTStruct(func(v interface{}) error { calls = append(calls, rec{who, v, nil}); return ret })
			}
		case "read":
			if who == 0 {
				apache.RegisterThriftRead(nil)
			} else {
				apache.RegisterThriftRead(func(r bufiox.Reader, v interface{}) error { calls = append(calls, rec{who, r, v}); return ret })
			}
		case "write":
			if who == 0 {
				apache.RegisterThriftWrite(nil)
			} else {
				apache.RegisterThriftWrite(func(w bufiox.Writer, v interface{}) error { calls = append(calls, rec{who, w, v}); return ret })
			}
		}
		cur = who
	}
	pi := mc.Try(func() {
		for si, st := range k.Steps {
			switch st {
			case 0:
				reg(1)
			case 1:
				reg(2)
			case 2:
				reg(0)
			case 3:
				// every kind of argument reaches the callback as it is: values that are FastCodecs themselves, a value whose
				// type has the methods generated code has (InitDefault, Reset, String, ...: none may be called on the way and
				// the content must arrive untouched), typed nil pointers (generated code encodes a nil struct as an empty
				// one), the untyped nil, and non-pointer values
				bait := &c19Bait{X: 41 + si, S: "content"}
				baseArg := &base.Base{LogID: "arg", Caller: "c", Extra: map[string]string{"k": "v"}}
				args := []interface{}{&struct{ X int }{si}, thrift.NewApplicationException(int32(si), "arg"), baseArg, bait,
					(*c19Bait)(nil), (*base.Base)(nil), nil, c19Val{X: si}, si}
				for ai, arg := range args {
					rd := bufiox.NewBytesReader([]byte{1, 2, 3})
					var target []byte
					wr := bufiox.NewBytesWriter(&target)
					before := len(calls)
					var err error
					var a0 interface{}
					switch k.Which {
					case "check":
						err = apache.CheckTStruct(arg)
						a0 = arg
					case "read":
						err = apache.ThriftRead(rd, arg)
						a0 = rd
					case "write":
						err = apache.ThriftWrite(wr, arg)
						a0 = wr
					}
					if cur == 0 {
						if err == nil {
							bad("unregistered-nil-error", "step %d: the callback is not registered but the call returned nil", si)
							return
						}
						if len(calls) != before {
							bad("unregistered-called", "step %d: a callback ran although none is registered", si)
							return
						}
						continue
					}
					if len(calls) != before+1 || calls[before].who != cur {
						bad("wrong-callback", "step %d, argument #%d (%T): expected exactly one call of callback f%d, saw %d new calls (error %v)", si, ai, arg, cur, len(calls)-before, err)
						return
					}
					cl := calls[before]
					if k.Which == "check" {
						if cl.a != interface{}(arg) {
							bad("arguments", "step %d: the callback did not receive the identical argument (#%d, %T)", si, ai, arg)
							return
						}
					} else if cl.a != a0 || cl.b != interface{}(arg) {
						bad("arguments", "step %d: the callback did not receive the identical arguments (#%d, %T)", si, ai, arg)
						return
					}
					if err != rets[cur] {
						bad("result", "step %d: the callback returned %v but the bridge returned %v", si, rets[cur], err)
						return
					}
				}
				if cur != 0 {
					if len(bait.touched) != 0 || bait.X != 41+si || bait.S != "content" {
						bad("argument-touched", "step %d: the bridge called %v on the argument / changed its content on the way to the callback", si, bait.touched)
						return
					}
					if baseArg.LogID != "arg" || baseArg.Caller != "c" || len(baseArg.Extra) != 1 {
						bad("argument-touched", "step %d: the content of the *base.Base argument was changed by the bridge", si)
						return
					}
				}
			}
		}
	})
	if pi != nil {
		bad("panic", "panic: %s at %s", pi.Msg, pi.Frame)
	}
	apache.RegisterCheckTStruct(nil)
	apache.RegisterThriftRead(nil)
	apache.RegisterThriftWrite(nil)
}

func c19Run(c *mc.Ctx) {
	depth := 5
	if c.Thorough() {
		depth = 7
	}
	for _, ctor := range []string{"NewBufferTransport", "NewDefaultTransport"} {
		if !c.Mine() {
			continue
		}
		s := newC19Sys(ctor)
		st := mc.BFS(s, depth, 0, c.Expired, func(h []int, op int, what, sig string) {
			ops := append(append([]int{}, h...), op)
			hist := make([]string, len(ops))
			for i, o := range ops {
				hist[i] = s.ops[o].String()
			}
			c.Violate("bfs", "C19|"+ctor+"|"+sig, fmt.Sprintf("%s over a bytes.Buffer, after %v: %s", ctor, hist[:len(hist)-1], what), c19Case{Ctor: ctor, Ops: ops, Hist: hist})
		})
		c.R.States += st.States
		c.R.Transitions += st.Transitions
		c.R.Traces += st.Transitions
		c.Eval(st.Transitions)
		c.R.Distinct += st.States
		if st.Capped {
			c.Incomplete(fmt.Sprintf("%s: stopped after depth %d", ctor, st.Depth))
		} else {
			c.Done(fmt.Sprintf("%s: all histories of Write/Read/Reset/Close/misc on both handles to depth %d", ctor, depth))
		}
	}
	c.Sample("history", []string{"Twrite(2)", "Bread(1)", "Tclose(0)", "Bwrite(1)", "Tread(200)"})
	if c.Mine() {
		c19ReadableLen(c, c19RL{HasMethod: false})
		c19ReadableLen(c, c19RL{LenOnly: true})
		c19ReadableLen(c, c19RL{HasMethod: false, Two: true})
		c19ReadableLen(c, c19RL{Full: true})
		for _, n := range []int{math.MinInt, -2, -1, 0, 1, 2, 4096, math.MaxInt} {
			c19ReadableLen(c, c19RL{HasMethod: true, N: n})
			c19ReadableLen(c, c19RL{HasMethod: true, N: n, Two: true})
			c19ReadableLen(c, c19RL{Full: true, HasMethod: true, N: n})
			for _, later := range [][]int{{5}, {0, 7}, {-1, 3, 0}, {9, -2, 1}} {
				c19ReadableLen(c, c19RL{HasMethod: true, N: n, Later: later})
			}
		}
		c.Done("generic transport: no ReadableLen, ReadableLen in {minInt,-1,0,1,2,4096,maxInt}")
	}
	if c.Mine() {
		// callbacks: all sequences of <= 4 steps over {register f1, register f2, register nil, call}; the state is process-global, so one worker does it
		for _, k := range c19CallbackCases() {
			c19Callbacks(c, k)
		}
		// all sequences of <= 4 steps over {register, call} x {check, read, write}
		var rec func(steps []int)
		rec = func(steps []int) {
			if len(steps) > 0 {
				c19Cross(c, c19CB{Which: "cross", Steps: append([]int{}, steps...)})
			}
			if len(steps) == 4 {
				return
			}
			for st := 0; st < 6; st++ {
				rec(append(steps, st))
			}
		}
		rec(nil)
		// the three 'not registered' errors are specific to their callback
		apache.RegisterCheckTStruct(nil)
		apache.RegisterThriftRead(nil)
		apache.RegisterThriftWrite(nil)
		if pi := mc.Try(func() {
			e1, e2, e3 := apache.CheckTStruct(1), apache.ThriftRead(nil, 1), apache.ThriftWrite(nil, 1)
			if e1 == nil || e2 == nil || e3 == nil || e1.Error() == e2.Error() || e2.Error() == e3.Error() || e1.Error() == e3.Error() {
				c.Violate("callback", "C19|callback|unspecific-error", fmt.Sprintf("the errors of unregistered callbacks are not callback-specific: %v / %v / %v", e1, e2, e3), c19CB{Which: "check", Steps: []int{2, 3}})
			}
		}); pi != nil {
			c.Violate("callback", "C19|callback|check|panic", fmt.Sprintf("calling an unregistered (nil-registered) callback panicked: %s", pi.Msg), c19CB{Which: "check", Steps: []int{2, 3}})
		}
		c.Done("callbacks: all sequences of <= 4 steps over {register f1, register f2, register nil, call} for each of the three bridges")
	}
}

func init() {
	Register(&Check{
		ID: "C19", Level: "model_checking", Shards: 4,
		Rule:        "explicit-state BFS over histories of T.Write/B.Write (4 payloads), T.Read/B.Read (4 sizes), B.Reset, T.Close, IsOpen/Open/Flush, B.UnreadByte, io.Copy(T, LimitReader) on the two handles of one bytes.Buffer, for both constructors; states keyed by the FIFO content, the push-back state and the real buffer's private state (by reflection); after every transition reads, RemainingBytes, B.Len and B.Bytes are compared with a byte-FIFO model; plus the generic transport over all readable-length classes and all callback registration/call sequences of <= 4 steps",
		Assumptions: []string{"callback registration is process-global state: the callback part runs in a single worker"},
		Run:         c19Run,
		Replay: func(c *mc.Ctx, sub string, raw json.RawMessage) {
			switch sub {
			case "bfs":
				replayAs(raw, func(k c19Case) {
					s := newC19Sys(k.Ctor)
					s.Reset()
					for i, o := range k.Ops {
						what, sig := s.Apply(o, true)
						if what != "" {
							c.Violate("bfs", "C19|"+k.Ctor+"|"+sig, fmt.Sprintf("%s over a bytes.Buffer, after %v: %s", k.Ctor, k.Hist[:i], what), k)
							return
						}
					}
				})
			case "generic":
				replayAs(raw, func(k c19RL) { c19ReadableLen(c, k) })
			case "cross":
				replayAs(raw, func(k c19CB) { c19Cross(c, k) })
			default:
				replayAs(raw, func(k c19CB) {
					// process-global state (registration, anything the bridge caches): re-run the enumeration up to the recorded case
					scratch := mc.NewCtx("C19", "quick", 0, 1, 0, 1<<40)
					for _, p := range c19CallbackCases() {
						if p.Index >= k.Index {
							break
						}
						c19Callbacks(scratch, p)
					}
					c19Callbacks(c, k)
				})
			}
		},
	})
}
