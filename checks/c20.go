package checks

import (
	"encoding/json"
	"fmt"
	"os"
	"os/exec"
	"strings"
	"unsafe"

	"github.com/cloudwego/gopkg/unsafex"

	"verif/arena"
	"verif/mc"
)

// C20 — zero-copy string/bytes conversions: content, length, aliasing, cap == len.
// Exhaustive over every sub-slice b[i:j:k] of backing arrays of length 0..9 and every
// substring s[i:j] of heap-backed strings of length 0..9, for both build variants
// (go1.21 file as built; pre-1.21 file compiled through the overlay by bin/check).

type c20Case struct {
	Kind string `json:"kind"` // "b2s" | "s2b" | "nil-b2s" | "empty-s2b"
	N    int    `json:"n"`    // backing length
	I    int    `json:"i"`
	J    int    `json:"j"`
	K    int    `json:"k"`                // cap bound (b2s only)
	Mem  string `json:"memory,omitempty"` // where the backing bytes live: "" Go heap | "mmap" (outside the Go heap: an anonymous mapping, like shared memory or cgo buffers) | "global" (a package-level array)
}

var c20Arena *arena.Arena
var c20Global [64]byte

// c20Backing returns n content bytes located in the requested kind of memory.
func c20Backing(n int, mem string) []byte {
	src := c20Content(n)
	switch mem {
	case "mmap":
		if c20Arena == nil {
			c20Arena = arena.New(20)
		}
		return c20Arena.AtStart(src, 0, 0)[:n:n]
	case "global":
		copy(c20Global[:], src)
		return c20Global[:n:n]
	}
	return src
}

func c20Content(n int) []byte {
	b := make([]byte, n)
	for i := range b {
		b[i] = []byte{0x00, 0xff, 'a', 0x80, 0xc3, 0x28, 'z', 0x7f, 0xfe}[i%9] // NUL and non-UTF-8 bytes
	}
	return b
}

func c20Run(c *mc.Ctx, k c20Case) {
	c.Eval(1)
	variant := os.Getenv("VERIF_C20_VARIANT")
	if variant == "" {
		variant = "go121"
	}
	bad := func(class, format string, a ...interface{}) {
		c.Violate("conv", fmt.Sprintf("C20|%s|%s|%s", variant, k.Kind, class), fmt.Sprintf("[%s] %s: ", variant, k.Kind)+fmt.Sprintf(format, a...)+fmt.Sprintf(" (case %+v)", k), k)
	}
	pi := mc.Try(func() {
		switch k.Kind {
		case "nil-b2s":
			var b []byte
			if s := unsafex.BinaryToString(b); len(s) != 0 {
				bad("len", "BinaryToString(nil) has length %d", len(s))
			}
		case "empty-s2b":
			if b := unsafex.StringToBinary(""); len(b) != 0 || cap(b) != 0 {
				bad("len", "StringToBinary(\"\") has len %d cap %d", len(b), cap(b))
			}
		case "b2s":
			back := c20Backing(k.N, k.Mem)
			want := string(back[k.I:k.J])
			b := back[k.I:k.J:k.K]
			s := unsafex.BinaryToString(b)
			if len(s) != len(b) {
				bad("len", "length %d, want %d", len(s), len(b))
				return
			}
			if s != want {
				bad("content", "content %q, want %q", s, want)
			}
			if len(b) > 0 {
				c.Distinct("b2s", k.N, k.I, k.J, k.K, k.Mem)
				if unsafe.StringData(s) != &b[0] {
					bad("copy", "result does not share memory with its argument")
					return
				}
				// behavioural aliasing: a write through the slice is visible through the string
				b[0] ^= 0x55
				if s[0] != b[0] {
					bad("copy", "write through the slice is not visible through the string")
					return
				}
				b[0] ^= 0x55
				if k.Mem == "" {
					// the same bytes in ANOTHER buffer, converted right afterwards: each result shares memory with its own
					// argument (no result is remembered and handed out again for equal content)
					back2 := c20Content(k.N)
					b2 := back2[k.I:k.J:k.K]
					s2 := unsafex.BinaryToString(b2)
					if unsafe.StringData(s2) != &b2[0] || s2 != want {
						bad("copy", "an equal value converted from another buffer right afterwards does not share memory with ITS argument")
						return
					}
					for i := range back {
						back[i] = 'x' // the first buffer is reused
					}
					if s2 != want {
						bad("content", "the second result changed when the FIRST buffer was overwritten")
					}
				}
			}
		case "s2b":
			back := c20Content(k.N)
			parent := string(back) // heap-backed (not in rodata), so a stray write cannot fault
			if k.Mem != "" {
				if m := c20Backing(k.N, k.Mem); len(m) > 0 {
					parent = unsafe.String(&m[0], len(m))
				}
			}
			s := parent[k.I:k.J]
			b := unsafex.StringToBinary(s)
			if len(b) != len(s) {
				bad("len", "length %d, want %d", len(b), len(s))
				return
			}
			if cap(b) != len(s) {
				bad("cap", "cap %d != len %d: append could write into the string's memory", cap(b), len(s))
				return
			}
			if string(b) != string(back[k.I:k.J]) {
				bad("content", "content %q, want %q", b, back[k.I:k.J])
			}
			if len(s) > 0 {
				c.Distinct("s2b", k.N, k.I, k.J, k.Mem)
				if &b[0] != unsafe.StringData(s) {
					bad("copy", "result does not share memory with its argument")
				}
			}
			b2 := append(b, 'X', 'Y')
			_ = b2
			if parent != string(back) {
				bad("append-writes-string", "append to the converted slice changed the enclosing string: %q -> %q", back, parent)
			}
		}
	})
	if pi != nil {
		bad("panic", "panic: %s at %s", pi.Msg, pi.Frame)
	}
}

// c20Stack: the argument lives in a local array of the callee; the returned string must stay valid after the
// frame is gone and the stack has been reused (the conversion must let its argument escape).
//
//go:noinline
func c20StackMake(seed byte, n int) string {
	var scratch [24]byte
	for i := range scratch {
		scratch[i] = seed + byte(i)
	}
	return unsafex.BinaryToString(scratch[:n])
}

//go:noinline
func c20StackMake2(seed byte, n int) string {
	b := make([]byte, 0, 32)
	for i := 0; i < n; i++ {
		b = append(b, seed+byte(i))
	}
	return unsafex.BinaryToString(b)
}

// the symmetric direction: a short string built locally (it may live in the callee's frame) converted to bytes
//
//go:noinline
func c20StackMakeS2B(seed byte, n int) []byte {
	var scratch [24]byte
	for i := range scratch {
		scratch[i] = seed + byte(i)
	}
	s := string(scratch[:n]) // short strings that do not escape are built on the stack
	return unsafex.StringToBinary(s)
}

//go:noinline
func c20StackMakeS2B2(seed byte, n int) []byte {
	s := ""
	for i := 0; i < n; i++ {
		s += string(rune(seed + byte(i)))
	}
	return unsafex.StringToBinary(s)
}

//go:noinline
func c20Clobber(depth int) int {
	var junk [256]byte
	for i := range junk {
		junk[i] = byte(0xA0 + depth)
	}
	if depth > 0 {
		return int(junk[depth]) + c20Clobber(depth-1)
	}
	return int(junk[0])
}

func c20Stack(c *mc.Ctx, k c20Case) {
	c.Eval(1)
	variant := os.Getenv("VERIF_C20_VARIANT")
	if variant == "" {
		variant = "go121"
	}
	for _, mk := range []func(byte, int) []byte{c20StackMakeS2B, c20StackMakeS2B2} {
		b := mk(byte(k.I), k.N)
		c20Clobber(8)
		ok := len(b) == k.N
		for i := 0; ok && i < len(b); i++ {
			ok = b[i] == byte(k.I)+byte(i)
		}
		if !ok {
			c.Violate("conv", fmt.Sprintf("C20|%s|s2b|dangling-stack-memory", variant), fmt.Sprintf("[%s] StringToBinary of a short string built in the callee (%d bytes) returned a slice whose content changed after the callee returned and the stack was reused: %x", variant, k.N, b), k)
			return
		}
	}
	for _, mk := range []func(byte, int) string{c20StackMake, c20StackMake2} {
		s := mk(byte(k.I), k.N)
		c20Clobber(8)
		ok := len(s) == k.N
		for i := 0; ok && i < len(s); i++ {
			ok = s[i] == byte(k.I)+byte(i)
		}
		if !ok {
			c.Violate("conv", fmt.Sprintf("C20|%s|b2s|dangling-stack-memory", variant), fmt.Sprintf("[%s] BinaryToString of a slice of a callee-local buffer (%d bytes) returned a string whose content changed after the callee returned and the stack was reused: %q", variant, k.N, s), k)
			return
		}
	}
}

// c20Huge: lengths at and beyond 2^32 (untouched memory: virtual only).
func c20Huge(c *mc.Ctx, k c20Case) {
	c.Eval(1)
	variant := os.Getenv("VERIF_C20_VARIANT")
	if variant == "" {
		variant = "go121"
	}
	n := 1<<32 + 5
	big := make([]byte, n)
	big[0], big[1<<32], big[n-1] = 'a', 'b', 'c'
	for _, l := range []int{1 << 32, n} {
		s := unsafex.BinaryToString(big[:l])
		b := unsafex.StringToBinary(s)
		if len(s) != l || len(b) != l || cap(b) != l || s[0] != 'a' || b[1<<32-1] != 0 || (l == n && (b[n-1] != 'c' || s[1<<32] != 'b')) {
			c.Violate("conv", fmt.Sprintf("C20|%s|huge|len", variant), fmt.Sprintf("[%s] a %d-byte value converts to a string of length %d and back to a slice of len %d cap %d", variant, l, len(s), len(b), cap(b)), k)
			return
		}
	}
}

// c20Cross: the two conversions used one after the other on DIFFERENT values (a conversion must not remember anything
// about earlier arguments): convert big buffers A then B to strings, then convert short substrings of A's string and of
// B's string back to bytes - each result shares memory with ITS argument and has cap == len.
func c20Cross(c *mc.Ctx, k c20Case) {
	c.Eval(1)
	variant := os.Getenv("VERIF_C20_VARIANT")
	if variant == "" {
		variant = "go121"
	}
	bad := func(class, format string, a ...interface{}) {
		c.Violate("conv", fmt.Sprintf("C20|%s|cross|%s", variant, class), fmt.Sprintf("[%s] BinaryToString(A), BinaryToString(B), then StringToBinary of substrings (buffers of %d bytes, substring [%d:%d]): ", variant, k.N, k.I, k.J)+fmt.Sprintf(format, a...), k)
	}
	A, B := c20Content(k.N), c20Content(k.N)
	for i := range B {
		B[i] ^= 0x20
	}
	sA := unsafex.BinaryToString(A)
	sB := unsafex.BinaryToString(B[: k.N/2 : k.N]) // an earlier part of another big buffer
	for round, src := range []string{sA, sB, sA} {
		if k.J > len(src) {
			continue
		}
		sub := src[k.I:k.J]
		b := unsafex.StringToBinary(sub)
		if len(b) != len(sub) || cap(b) != len(sub) || string(b) != sub {
			bad("content", "round %d: len %d cap %d content %q, want %q with cap == len", round, len(b), cap(b), b, sub)
			return
		}
		if len(sub) > 0 && &b[0] != unsafe.StringData(sub) {
			bad("copy", "round %d: the bytes obtained from a substring of an earlier conversion result do not share memory with it", round)
			return
		}
		_ = unsafex.BinaryToString(b) // and back again
	}
}

func c20CrossAll(c *mc.Ctx) {
	for _, n := range []int{16384, 65536, 64, 8192} { // the big buffers first: those cases fail on their own
		for _, ij := range [][2]int{{0, 1}, {3, 3}, {5, 37}, {0, 64}, {n/2 - 10, n/2 - 1}, {10, 10 + 65}} {
			c.Distinct("cross", n, ij)
			c20Cross(c, c20Case{Kind: "cross", N: n, I: ij[0], J: ij[1]})
		}
	}
}

func c20Enumerate(c *mc.Ctx) {
	guard := func(k c20Case, f func(*mc.Ctx, c20Case)) {
		if pi := mc.Try(func() { f(c, k) }); pi != nil {
			c.Violate("conv", "C20|"+k.Kind+"|panic", fmt.Sprintf("%s case %+v: panic: %s at %s", k.Kind, k, pi.Msg, pi.Frame), k)
		}
	}
	for n := 0; n <= 24; n++ {
		guard(c20Case{Kind: "stack", N: n, I: 3}, c20Stack)
	}
	guard(c20Case{Kind: "huge"}, c20Huge)
	// sub-slices with a lot of spare capacity (a conversion that copies "to avoid pinning big buffers" breaks sharing)
	for _, n := range []int{8192, 65536} {
		for _, i := range []int{0, 1} {
			for _, l := range []int{0, 1, 2, 127, 128, 129, n/64 - 1, n / 64, n/64 + 1} {
				for _, k := range []int{i + l, n} {
					c20Run(c, c20Case{Kind: "b2s", N: n, I: i, J: i + l, K: k})
				}
				c20Run(c, c20Case{Kind: "s2b", N: n, I: i, J: i + l})
			}
		}
	}
	// memory that is not on the Go heap: an anonymous mapping and a package-level array
	for _, mem := range []string{"mmap", "global"} {
		for _, n := range []int{1, 9, 64, 4096, 65536} {
			if mem == "global" && n > 64 {
				continue
			}
			for _, ij := range [][2]int{{0, n}, {0, 1}, {n / 2, n}, {n - 1, n}} {
				c20Run(c, c20Case{Kind: "b2s", N: n, I: ij[0], J: ij[1], K: ij[1], Mem: mem})
				c20Run(c, c20Case{Kind: "b2s", N: n, I: ij[0], J: ij[1], K: n, Mem: mem})
				c20Run(c, c20Case{Kind: "s2b", N: n, I: ij[0], J: ij[1], Mem: mem})
			}
		}
	}
	c20CrossAll(c)
	c20Run(c, c20Case{Kind: "nil-b2s"})
	c20Run(c, c20Case{Kind: "empty-s2b"})
	c.Sample("b2s", c20Case{Kind: "b2s", N: 9, I: 2, J: 5, K: 7})
	c.Sample("s2b", c20Case{Kind: "s2b", N: 9, I: 3, J: 3})
	for n := 0; n <= 9; n++ {
		for i := 0; i <= n; i++ {
			for j := i; j <= n; j++ {
				for k := j; k <= n; k++ {
					c20Run(c, c20Case{Kind: "b2s", N: n, I: i, J: j, K: k})
				}
				c20Run(c, c20Case{Kind: "s2b", N: n, I: i, J: j})
			}
		}
	}
	c.Done("all b[i:j:k] of arrays 0..9, all s[i:j] of strings 0..9, nil, empty")
}

func init() {
	Register(&Check{
		ID: "C20", Level: "exploration", Shards: 1,
		Rule:        "every sub-slice b[i:j:k] of backing arrays of length 0..9 (all amounts of spare capacity, empty non-nil, nil) and every substring s[i:j] of heap-backed strings of length 0..9, content with NUL and non-UTF-8 bytes; sub-slices of 8 KiB / 64 KiB arrays around len = cap/64; slices of callee-local buffers of every length 0..24 (result must survive the callee's frame); lengths 2^32 and 2^32+5; arguments in memory outside the Go heap (an anonymous mapping, a package-level array); both build variants of package unsafex; a case is non-trivial when the value is non-empty (pointer identity is then checked)",
		Assumptions: []string{"the pre-go1.21 variant is compiled with the installed toolchain through the overlay (its build constraint stripped); older toolchains are not installed"},
		Run:         c20Enumerate,
		Replay: func(c *mc.Ctx, sub string, raw json.RawMessage) {
			replayAs(raw, func(k c20Case) {
				f := c20Run
				switch k.Kind {
				case "stack":
					f = c20Stack
				case "huge":
					f = c20Huge
				case "cross":
					// a conversion that remembers earlier arguments keeps process-wide state: whether one cross case fails
					// depends on the conversions made before it.  The replay therefore runs the whole cross enumeration
					// (in the recorded order) and reports the first case that fails, under the same signature.
					f = func(c *mc.Ctx, _ c20Case) { c20CrossAll(c) }
				}
				if pi := mc.Try(func() { f(c, k) }); pi != nil {
					c.Violate("conv", "C20|"+k.Kind+"|panic", fmt.Sprintf("%s case %+v: panic: %s at %s", k.Kind, k, pi.Msg, pi.Frame), k)
				}
			})
		},
		Post: func(tier string) (map[string]interface{}, []mc.Violation) {
			alt := os.Getenv("VERIF_ALT_BIN")
			if alt == "" {
				return map[string]interface{}{"go100_variant": "not built (VERIF_ALT_BIN unset)"}, nil
			}
			cmd := exec.Command(alt, "worker", "C20", "--tier", tier, "--shard", "0", "--of", "1", "--budget", "100")
			cmd.Env = append(os.Environ(), "VERIF_C20_VARIANT=go100")
			out, err := cmd.Output()
			var r mc.Result
			if err != nil || json.Unmarshal(out, &r) != nil {
				return nil, []mc.Violation{{Property: "C20", Sub: "post", Sig: "C20|go100|worker-failed", What: fmt.Sprintf("go100 variant worker failed: %v", err), Case: json.RawMessage(`{}`)}}
			}
			for i := range r.Violations {
				r.Violations[i].Sub = "post"
			}
			extra := map[string]interface{}{"go100_variant_evaluations": r.Evaluations, "go100_variant_distinct": r.Distinct}
			vs := r.Violations
			// the conversions on a 32-bit target (cmd/c20arch built with GOARCH=386)
			if b386 := os.Getenv("VERIF_C20_386_BIN"); b386 == "" {
				extra["word_size_4_variant"] = "not built (package unsafex does not build for GOARCH=386 on this tree, or VERIF_C20_386_BIN unset)"
			} else {
				o386, e386 := exec.Command(b386).CombinedOutput()
				text := strings.TrimSpace(string(o386))
				_, exited := e386.(*exec.ExitError)
				switch {
				case e386 == nil:
					extra["word_size_4_variant"] = text
				case !exited:
					extra["word_size_4_variant"] = "skipped: this kernel does not execute 32-bit binaries (" + e386.Error() + ")"
				default:
					sig, what := "C20|arch|failed", text
					for _, l := range strings.Split(text, "\n") {
						if f := strings.SplitN(l, " ", 3); len(f) == 3 && f[0] == "FAIL" {
							sig, what = f[1], "GOARCH=386: "+f[2]
							break
						}
					}
					raw, _ := json.Marshal(map[string]string{"goarch": "386", "output": tailStr(text, 3000)})
					vs = append(vs, mc.Violation{Property: "C20", Sub: "post", Sig: sig, What: what, Case: raw})
				}
			}
			return extra, vs
		},
	})
}
