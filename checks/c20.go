package checks

import (
	"encoding/json"
	"fmt"
	"os"
	"os/exec"
	"unsafe"

	"github.com/cloudwego/gopkg/unsafex"

	"verif/mc"
)

// C20 — zero-copy string/bytes conversions: content, length, aliasing, cap == len.
// Exhaustive over every sub-slice b[i:j:k] of backing arrays of length 0..9 and every
// substring s[i:j] of heap-backed strings of length 0..9, for both build variants
// (go1.21 file as built; pre-1.21 file compiled through the overlay by bin/check).

type c20Case struct {
	Kind string `json:"kind"` // "b2s" | "s2b" | "nil-b2s" | "empty-s2b"
	N    int    `json:"n"`    // backing length
	I    int    `json:"i"`
	J    int    `json:"j"`
	K    int    `json:"k"` // cap bound (b2s only)
}

func c20Content(n int) []byte {
	b := make([]byte, n)
	for i := range b {
		b[i] = []byte{0x00, 0xff, 'a', 0x80, 0xc3, 0x28, 'z', 0x7f, 0xfe}[i%9] // NUL and non-UTF-8 bytes
	}
	return b
}

func c20Run(c *mc.Ctx, k c20Case) {
	c.Eval(1)
	variant := os.Getenv("VERIF_C20_VARIANT")
	if variant == "" {
		variant = "go121"
	}
	bad := func(class, format string, a ...interface{}) {
		c.Violate("conv", fmt.Sprintf("C20|%s|%s|%s", variant, k.Kind, class), fmt.Sprintf("[%s] %s: ", variant, k.Kind)+fmt.Sprintf(format, a...)+fmt.Sprintf(" (case %+v)", k), k)
	}
	pi := mc.Try(func() {
		switch k.Kind {
		case "nil-b2s":
			var b []byte
			if s := unsafex.BinaryToString(b); len(s) != 0 {
				bad("len", "BinaryToString(nil) has length %d", len(s))
			}
		case "empty-s2b":
			if b := unsafex.StringToBinary(""); len(b) != 0 || cap(b) != 0 {
				bad("len", "StringToBinary(\"\") has len %d cap %d", len(b), cap(b))
			}
		case "b2s":
			back := c20Content(k.N)
			want := string(back[k.I:k.J])
			b := back[k.I:k.J:k.K]
			s := unsafex.BinaryToString(b)
			if len(s) != len(b) {
				bad("len", "length %d, want %d", len(s), len(b))
				return
			}
			if s != want {
				bad("content", "content %q, want %q", s, want)
			}
			if len(b) > 0 {
				c.Distinct("b2s", k.N, k.I, k.J, k.K)
				if unsafe.StringData(s) != &b[0] {
					bad("copy", "result does not share memory with its argument")
					return
				}
				// behavioural aliasing: a write through the slice is visible through the string
				b[0] ^= 0x55
				if s[0] != b[0] {
					bad("copy", "write through the slice is not visible through the string")
				}
			}
		case "s2b":
			back := c20Content(k.N)
			parent := string(back) // heap-backed (not in rodata), so a stray write cannot fault
			s := parent[k.I:k.J]
			b := unsafex.StringToBinary(s)
			if len(b) != len(s) {
				bad("len", "length %d, want %d", len(b), len(s))
				return
			}
			if cap(b) != len(s) {
				bad("cap", "cap %d != len %d: append could write into the string's memory", cap(b), len(s))
				return
			}
			if string(b) != string(back[k.I:k.J]) {
				bad("content", "content %q, want %q", b, back[k.I:k.J])
			}
			if len(s) > 0 {
				c.Distinct("s2b", k.N, k.I, k.J)
				if &b[0] != unsafe.StringData(s) {
					bad("copy", "result does not share memory with its argument")
				}
			}
			b2 := append(b, 'X', 'Y')
			_ = b2
			if parent != string(back) {
				bad("append-writes-string", "append to the converted slice changed the enclosing string: %q -> %q", back, parent)
			}
		}
	})
	if pi != nil {
		bad("panic", "panic: %s at %s", pi.Msg, pi.Frame)
	}
}

func c20Enumerate(c *mc.Ctx) {
	c20Run(c, c20Case{Kind: "nil-b2s"})
	c20Run(c, c20Case{Kind: "empty-s2b"})
	c.Sample("b2s", c20Case{Kind: "b2s", N: 9, I: 2, J: 5, K: 7})
	c.Sample("s2b", c20Case{Kind: "s2b", N: 9, I: 3, J: 3})
	for n := 0; n <= 9; n++ {
		for i := 0; i <= n; i++ {
			for j := i; j <= n; j++ {
				for k := j; k <= n; k++ {
					c20Run(c, c20Case{Kind: "b2s", N: n, I: i, J: j, K: k})
				}
				c20Run(c, c20Case{Kind: "s2b", N: n, I: i, J: j})
			}
		}
	}
	c.Done("all b[i:j:k] of arrays 0..9, all s[i:j] of strings 0..9, nil, empty")
}

func init() {
	Register(&Check{
		ID: "C20", Level: "exploration", Shards: 1,
		Rule:        "every sub-slice b[i:j:k] of backing arrays of length 0..9 (all amounts of spare capacity, empty non-nil, nil) and every substring s[i:j] of heap-backed strings of length 0..9, content with NUL and non-UTF-8 bytes; both build variants of package unsafex; a case is non-trivial when the value is non-empty (pointer identity is then checked)",
		Assumptions: []string{"the pre-go1.21 variant is compiled with the installed toolchain through the overlay (its build constraint stripped); older toolchains are not installed"},
		Run:         c20Enumerate,
		Replay: func(c *mc.Ctx, sub string, raw json.RawMessage) {
			replayAs(raw, func(k c20Case) { c20Run(c, k) })
		},
		Post: func(tier string) (map[string]interface{}, []mc.Violation) {
			alt := os.Getenv("VERIF_ALT_BIN")
			if alt == "" {
				return map[string]interface{}{"go100_variant": "not built (VERIF_ALT_BIN unset)"}, nil
			}
			cmd := exec.Command(alt, "worker", "C20", "--tier", tier, "--shard", "0", "--of", "1", "--budget", "100")
			cmd.Env = append(os.Environ(), "VERIF_C20_VARIANT=go100")
			out, err := cmd.Output()
			var r mc.Result
			if err != nil || json.Unmarshal(out, &r) != nil {
				return nil, []mc.Violation{{Property: "C20", Sub: "post", Sig: "C20|go100|worker-failed", What: fmt.Sprintf("go100 variant worker failed: %v", err), Case: json.RawMessage(`{}`)}}
			}
			for i := range r.Violations {
				r.Violations[i].Sub = "post"
			}
			return map[string]interface{}{"go100_variant_evaluations": r.Evaluations, "go100_variant_distinct": r.Distinct}, r.Violations
		},
	})
}
