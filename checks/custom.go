package checks

import (
	"io"

	"github.com/cloudwego/gopkg/bufiox"
)

// Conforming but unusual implementations of the interfaces the library accepts.  The library must work with
// ANY implementation that honours the documented contract, not only with its own.

// zcWriter is a zero-copy bufiox.Writer: WriteBinary keeps a REFERENCE to the caller's slice until Flush (the
// interface says "it may be a zero copy write"; the caller must not modify bs before Flush), and every Malloc
// returns its own chunk.
type zcWriter struct {
	OnOp   func() // called at the start of every Malloc / WriteBinary (lets a test look at the caller's data DURING an encode)
	sink   io.Writer
	chunks [][]byte
	n      int
	err    error
}

var _ bufiox.Writer = (*zcWriter)(nil)

// bxVal hands a bufiox.Writer over as a struct VALUE (the interface may be implemented on any type).
type bxVal struct {
	bufiox.Writer
	tag int
}

func (w *zcWriter) Malloc(n int) ([]byte, error) {
	if w.OnOp != nil {
		w.OnOp()
	}
	if w.err != nil {
		return nil, w.err
	}
	if n < 0 {
		return nil, io.ErrShortBuffer
	}
	b := make([]byte, n)
	for i := range b {
		b[i] = 0xE9 // dirty, like pooled memory
	}
	w.chunks = append(w.chunks, b)
	w.n += n
	return b, nil
}

func (w *zcWriter) WriteBinary(bs []byte) (int, error) {
	if w.OnOp != nil {
		w.OnOp()
	}
	if w.err != nil {
		return 0, w.err
	}
	w.chunks = append(w.chunks, bs) // no copy
	w.n += len(bs)
	return len(bs), nil
}

func (w *zcWriter) WrittenLen() int { return w.n }

func (w *zcWriter) Flush() error {
	if w.err != nil {
		return w.err
	}
	var all []byte
	for _, c := range w.chunks {
		all = append(all, c...)
	}
	w.chunks, w.n = nil, 0
	if _, err := w.sink.Write(all); err != nil {
		w.err = err
		return err
	}
	return nil
}

// failWriter fails its k-th operation (Malloc / WriteBinary / Flush), otherwise behaves like zcWriter with copying.
type failWriter struct {
	zcWriter
	failAt int
	ops    int
}

func (w *failWriter) tick() error {
	w.ops++
	if w.failAt > 0 && w.ops >= w.failAt {
		return errSink
	}
	return nil
}

func (w *failWriter) Malloc(n int) ([]byte, error) {
	if err := w.tick(); err != nil {
		return nil, err
	}
	return w.zcWriter.Malloc(n)
}

func (w *failWriter) WriteBinary(bs []byte) (int, error) {
	if err := w.tick(); err != nil {
		return 0, err
	}
	return w.zcWriter.WriteBinary(append([]byte{}, bs...))
}

func (w *failWriter) Flush() error {
	if err := w.tick(); err != nil {
		return err
	}
	return w.zcWriter.Flush()
}

// customReader is "some other bufiox.Reader": it delegates everything, but its dynamic type is not one of the
// library's own reader types.
type customReader struct{ inner bufiox.Reader }

var _ bufiox.Reader = customReader{}

func (r customReader) Next(n int) ([]byte, error)        { return r.inner.Next(n) }
func (r customReader) ReadBinary(bs []byte) (int, error) { return r.inner.ReadBinary(bs) }
func (r customReader) Peek(n int) ([]byte, error)        { return r.inner.Peek(n) }
func (r customReader) Skip(n int) error                  { return r.inner.Skip(n) }
func (r customReader) ReadLen() int                      { return r.inner.ReadLen() }
func (r customReader) Release(e error) error             { return r.inner.Release(e) }

// lenientReader is a caller-implemented bufiox.Reader in the style of network buffers: a request for zero or fewer bytes
// is a no-op that succeeds (the interface says nothing about such requests).  Code sitting on top of it cannot rely on
// the reader to reject a negative size for it.
type lenientReader struct{ customReader }

func (r lenientReader) Skip(n int) error {
	if n <= 0 {
		return nil
	}
	return r.inner.Skip(n)
}
func (r lenientReader) Next(n int) ([]byte, error) {
	if n <= 0 {
		return []byte{}, nil
	}
	return r.inner.Next(n)
}
func (r lenientReader) Peek(n int) ([]byte, error) {
	if n <= 0 {
		return []byte{}, nil
	}
	return r.inner.Peek(n)
}

// reuseSkipper implements thrift.SkipDecoderIface over a byte slice but hands out the SAME scratch buffer on
// every SkipN (the interface documentation allows it: "It's safe to reuse buffer for next SkipN call").
type reuseSkipper struct {
	b       []byte
	off     int
	scratch []byte
}

func (p *reuseSkipper) SkipN(n int) ([]byte, error) {
	if n < 0 || len(p.b)-p.off < n {
		return nil, io.EOF
	}
	if cap(p.scratch) < n {
		p.scratch = make([]byte, n)
	}
	s := p.scratch[:n]
	copy(s, p.b[p.off:p.off+n])
	p.off += n
	return s, nil
}
