package checks

import (
	"errors"
	"fmt"
	"github.com/cloudwego/gopkg/bufiox"
	"io"

	"github.com/cloudwego/gopkg/protocol/thrift"

	"verif/mc"
)

// ---- position-dependent content (DESIGN 4.2) ----
// Values < 0x80; any displacement of a >=2-byte slice by any delta < 2e6 changes its content.
// Bytes >= 0x80 are reserved for allocator patterns (0xDD poison, 0xA5 fresh, 0xC7 co-tenant, 0xE9 dirty).

func streamByte(i int) byte { return byte((i + 31*(i/127) + 57*(i/16129)) % 127) }

var streamCache []byte

func stream(n int) []byte {
	if len(streamCache) < n {
		m := n + 4096
		b := make([]byte, m)
		for i := range b {
			b[i] = streamByte(i)
		}
		streamCache = b
	}
	return streamCache[:n:n]
}

// ---- terminal errors of a source ----

var errX = errors.New("verif: injected source error")
var errAfter = errors.New("verif: a different error returned by a source that was read again after it had failed")

// the last one is a source error that merely WRAPS a thrift protocol exception (it is not one itself)
// typedErr is a lower layer's error that carries its own Thrift type id (as transport exceptions of RPC frameworks do)
// and wraps the real cause.
type typedErr struct{ cause error }

func (e *typedErr) Error() string { return "transport: not open: " + e.cause.Error() }
func (e *typedErr) TypeId() int32 { return 1 }
func (e *typedErr) Unwrap() error { return e.cause }

var termErrs = []error{io.EOF, io.ErrUnexpectedEOF, errX, fmt.Errorf("ctx: %w", errX), fmt.Errorf("conn reset while relaying: %w", thrift.NewProtocolException(thrift.INVALID_DATA, "upstream said so")), &typedErr{cause: errX}, fmt.Errorf("read tcp 10.0.0.1:8888: connection closed by peer: %w", io.EOF), srcTimeout{}, aggErr{errX, io.ErrClosedPipe}, libOwnReadErr}

// aggErr is an aggregate of errors whose dynamic type is NOT comparable (a slice): comparing two of them with == panics,
// errors.Is does not (it asks the Is method).
type aggErr []error

func (a aggErr) Error() string {
	return fmt.Sprintf("verif: %d errors on the source: %v; %v", len(a), a[0], a[1])
}
func (a aggErr) Unwrap() []error { return a }
func (a aggErr) Is(t error) bool {
	o, ok := t.(aggErr)
	if !ok || len(o) != len(a) {
		return false
	}
	for i := range a {
		if a[i] != o[i] {
			return false
		}
	}
	return true
}

// srcTimeout is a deadline error of the source (net.Error style: Timeout() is true); it is the source's error like any other.
type srcTimeout struct{}

func (srcTimeout) Error() string   { return "verif: i/o timeout on the source" }
func (srcTimeout) Timeout() bool   { return true }
func (srcTimeout) Temporary() bool { return true }

var termErrNames = []string{"io.EOF", "io.ErrUnexpectedEOF", "errX", "wrapped(errX)", "wraps-a-protocol-exception", "typed-error-wrapping(errX)", "wrapped(io.EOF)", "timeout-error", "aggregate-of-a-non-comparable-type", "an-error-value-made-by-the-library-itself"}

// ---- EnvReader: harness-owned io.Reader (fault and fragmentation model, DESIGN 4.3) ----

type EnvCfg struct {
	Chunk       int  `json:"chunk"`                                  // max bytes per Read (0 = as much as fits)
	ErrWithLast bool `json:"err_with_last"`                          // final data delivered together with the error
	ZeroReads   int  `json:"zero_reads"`                             // (0,nil) answers before every data read
	Len         bool `json:"source_has_len,omitempty"`               // the source also has a Len() method: bytes readable right now without blocking (as connections and ring buffers have)
	SmallFirst  int  `json:"first_reads_deliver_one_byte,omitempty"` // the first K Read calls deliver a single byte each (small messages arriving alone), later ones follow Chunk
	TailZeros   int  `json:"empty_reads_before_the_error,omitempty"` // once the data is exhausted the source answers this many Reads with (0, nil) before it returns its error
	Err         int  `json:"err"`                                    // index into termErrs
	AfterErr    int  `json:"after_err,omitempty"`                    // what a Read AFTER the terminal error answers: 0 the same error again, 1 bogus data (0x7b...) then another error
}

func (e EnvCfg) String() string {
	s := fmt.Sprintf("chunk=%d errWithLast=%v zeroReads=%d err=%s", e.Chunk, e.ErrWithLast, e.ZeroReads, termErrNames[e.Err])
	if e.Len {
		s += " source-has-Len"
	}
	if e.TailZeros > 0 {
		s += fmt.Sprintf(" emptyReadsBeforeError=%d", e.TailZeros)
	}
	if e.SmallFirst > 0 {
		s += fmt.Sprintf(" first%dReadsDeliver1Byte", e.SmallFirst)
	}
	if e.AfterErr != 0 {
		s += " after-error=bogus-data-then-other-error"
	}
	return s
}

type EnvReader struct {
	Cfg EnvCfg
	D   []byte
	pos int

	zr          int
	dataReads   int
	tz          int
	Calls       int
	BytesOut    int
	ErrReturned bool
	AfterErr    int   // Read calls after the terminal error was returned
	Need        int   // > 0: the consumer needs only D[:Need]; a Read call issued once that much was delivered is "late"
	LateCalls   int   // (on a live connection it would block waiting for data the consumer has no use for)
	Seeks       int   // calls of Seek (sources with Cfg.Len are seekable)
	beyond      int64 // how far the last Seek went past the end

	Ch     *mc.Chooser // per-call deviations for the first DevCalls calls (nil = none)
	DevMax int
	Hook   func() // scheduling point (C14)
}

// envChooser, when set, is attached to every EnvReader created (per-Read deviations, E1).
var (
	envChooser *mc.Chooser
	envDevMax  int
)

// EnvChoices is embedded in case records so that a violation found under per-Read deviations replays exactly.
type EnvChoices struct {
	Choices []int `json:"env_choices,omitempty"`
	DevMax  int   `json:"dev_max,omitempty"`
}

// currentEnvChoices captures the deviations of the execution in progress.
func currentEnvChoices() EnvChoices {
	if envChooser == nil {
		return EnvChoices{}
	}
	return EnvChoices{Choices: envChooser.Choices(), DevMax: envDevMax}
}

// withEnvChoices re-installs recorded deviations around body (replay).
func withEnvChoices(e EnvChoices, body func()) {
	if e.DevMax > 0 {
		envChooser, envDevMax = mc.NewReplayChooser(e.Choices), e.DevMax
		defer func() { envChooser, envDevMax = nil, 0 }()
	}
	body()
}

// exploreEnv runs body under every combination of at most `bound` per-Read deviations (1 byte, empty read, half,
// everything-with-the-error) on the first 24 reads of every EnvReader the body creates (E1).
func exploreEnv(c *mc.Ctx, bound int, body func()) (executions int64, complete bool) {
	st := mc.Explore(bound, 0, c.Expired, func(ch *mc.Chooser) {
		envChooser, envDevMax = ch, 24
		body()
		envChooser, envDevMax = nil, 0
	})
	return st.Executions, !st.Capped
}

func NewEnvReader(d []byte, cfg EnvCfg) *EnvReader {
	return &EnvReader{Cfg: cfg, D: d, Ch: envChooser, DevMax: envDevMax}
}

func (e *EnvReader) Pos() int { return e.pos }

// Src is what the code under test is given: the reader itself or, with Cfg.Len, a wrapper whose dynamic type also has
// Len() int = number of bytes the next Read can deliver without blocking (NOT the bytes still to come).
//
// With an ODD chunk size (1, 7, 4097, ...) the source is handed over as a struct VALUE (value receiver) instead of a
// pointer: io.Reader is an interface and callers implement it on either; the stream is the same.
func (e *EnvReader) Src() io.Reader {
	if e.Cfg.Len {
		return &envReaderLen{e}
	}
	if e.Cfg.Chunk%2 == 1 {
		return envReaderVal{inner: e, tag: 1}
	}
	return e
}

type envReaderVal struct {
	inner *EnvReader
	tag   int
}

func (v envReaderVal) Read(p []byte) (int, error) { return v.inner.Read(p) }

type envReaderLen struct{ *EnvReader }

// A source of this kind usually has more optional methods (bytes.Reader, bufio.Reader, net.Buffers ...): consumers that
// probe for them must get the same stream through them.
func (l *envReaderLen) ReadByte() (byte, error) {
	var b [1]byte
	for {
		n, err := l.Read(b[:])
		if n == 1 {
			return b[0], nil
		}
		if err != nil {
			return 0, err
		}
	}
}

func (l *envReaderLen) WriteTo(w io.Writer) (int64, error) {
	var total int64
	buf := make([]byte, 512)
	for {
		n, err := l.Read(buf)
		if n > 0 {
			m, werr := w.Write(buf[:n])
			total += int64(m)
			if werr != nil {
				return total, werr
			}
		}
		if err != nil {
			if err == io.EOF {
				return total, nil
			}
			return total, err
		}
	}
}

// Seek: sources of this kind (files, bytes.Reader, strings.Reader, io.SectionReader) are usually seekable.  As with those,
// seeking beyond the end is NOT an error - the next Read reports the end.  Bytes jumped over count as consumed from the
// source, bytes given back by seeking backwards count as not consumed.
func (l *envReaderLen) Seek(off int64, whence int) (int64, error) {
	var abs int64
	switch whence {
	case io.SeekStart:
		abs = off
	case io.SeekCurrent:
		abs = int64(l.pos) + l.beyond + off
	case io.SeekEnd:
		abs = int64(len(l.D)) + off
	default:
		return 0, errors.New("verif source: Seek: invalid whence")
	}
	if abs < 0 {
		return 0, errors.New("verif source: Seek: negative position")
	}
	l.Seeks++
	l.beyond = 0
	if abs > int64(len(l.D)) {
		l.beyond = abs - int64(len(l.D))
		abs = int64(len(l.D))
	}
	l.pos = int(abs)
	l.BytesOut = l.pos
	return abs + l.beyond, nil
}

func (l *envReaderLen) Len() int {
	if l.ErrReturned {
		return 0
	}
	n := len(l.D) - l.pos
	if l.Cfg.Chunk > 0 && n > l.Cfg.Chunk {
		n = l.Cfg.Chunk
	}
	return n
}

func (e *EnvReader) Read(p []byte) (int, error) {
	if e.Hook != nil {
		e.Hook()
	}
	e.Calls++
	if e.Need > 0 && e.pos >= e.Need && e.pos == len(e.D) && len(p) > 0 {
		// everything the consumer needs has been delivered and the source has nothing more right now: on a live
		// connection this Read blocks until the peer sends something else
		e.LateCalls++
	}
	if e.ErrReturned {
		e.AfterErr++
		if e.Cfg.AfterErr == 1 {
			// a source is under no obligation to repeat its error: a reader that asks again gets garbage
			if e.AfterErr == 1 && len(p) > 0 {
				n := len(p)
				if n > 64 {
					n = 64
				}
				for i := 0; i < n; i++ {
					p[i] = 0x7b
				}
				return n, nil
			}
			return 0, errAfter
		}
		return 0, termErrs[e.Cfg.Err]
	}
	dev := 0
	if e.Ch != nil && e.Calls <= e.DevMax {
		dev = e.Ch.Choose(5)
	}
	left := len(e.D) - e.pos
	if len(p) == 0 {
		return 0, nil
	}
	if left == 0 && e.tz < e.Cfg.TailZeros {
		e.tz++
		return 0, nil
	}
	if dev == 0 && e.zr < e.Cfg.ZeroReads && left > 0 {
		e.zr++
		return 0, nil
	}
	if dev == 2 && left > 0 { // deviation: one extra empty read
		return 0, nil
	}
	e.zr = 0
	n := left
	if n > len(p) {
		n = len(p)
	}
	if e.Cfg.Chunk > 0 && n > e.Cfg.Chunk {
		n = e.Cfg.Chunk
	}
	if e.dataReads < e.Cfg.SmallFirst && n > 1 {
		n = 1
	}
	e.dataReads++
	withErr := e.Cfg.ErrWithLast
	switch dev {
	case 1: // one byte
		if n > 1 {
			n = 1
		}
	case 3: // half of the default
		if n > 1 {
			n = n / 2
		}
	case 4: // everything that is left (and fits), together with the error
		n = left
		if n > len(p) {
			n = len(p)
		}
		withErr = true
	}
	copy(p, e.D[e.pos:e.pos+n])
	e.pos += n
	e.BytesOut += n
	if e.pos == len(e.D) && (n == 0 || withErr) {
		e.ErrReturned = true
		return n, termErrs[e.Cfg.Err]
	}
	return n, nil
}

// ---- EnvWriter: harness-owned io.Writer ----

var errSink = errors.New("verif: injected sink error")

// timeoutErr is a sink error that reports Timeout() == true (a caller might be tempted to retry).
type timeoutErr struct{}

func (timeoutErr) Error() string   { return "verif: injected sink timeout" }
func (timeoutErr) Timeout() bool   { return true }
func (timeoutErr) Temporary() bool { return true }
func (timeoutErr) Unwrap() error   { return errSink }

type EnvWriter struct {
	FailAt     int // fail the k-th Write (1-based); 0 = never
	Mode       int // how it fails: 0 (0, err); 1 (len(p), err) — everything was taken AND an error is reported; 2 (len(p)/2, timeout error); 3 (0, an error value made by the library itself)
	Calls      int
	Got        []byte   // concatenation of everything accepted
	Chunks     [][2]int // (offset into Got, len) per accepted call
	Hook       func()
	Rich       bool // the sink also has WriteString / ReadFrom / Flush
	FlushFails bool // (Rich) its Flush method fails
	FlushCalls int
}

// Sink is what the code under test is given: the writer itself or, with Rich, a wrapper that also offers WriteString and
// ReadFrom (as files, buffers and connections do), each with exactly the semantics of Write.
//
// A sink whose injected failure is at an EVEN call number (incl. 0 = never) is handed over as a struct VALUE.
func (w *EnvWriter) Sink() io.Writer {
	if w.Rich {
		return &envWriterRich{w}
	}
	if w.FailAt%2 == 0 {
		return envWriterVal{inner: w, tag: 1}
	}
	return w
}

type envWriterVal struct {
	inner *EnvWriter
	tag   int
}

func (v envWriterVal) Write(p []byte) (int, error) { return v.inner.Write(p) }

type envWriterRich struct{ *EnvWriter }

func (r *envWriterRich) WriteString(s string) (int, error) { return r.Write([]byte(s)) }

// Flush: sinks like *bufio.Writer have one.  Whether a buffered writer calls it is its own choice; if it does and the
// call fails (FlushFails), that is a sink error like any other.
func (r *envWriterRich) Flush() error {
	r.FlushCalls++
	if r.FlushFails {
		return errSink
	}
	return nil
}
func (r *envWriterRich) ReadFrom(src io.Reader) (int64, error) {
	var total int64
	buf := make([]byte, 700)
	for {
		n, err := src.Read(buf)
		if n > 0 {
			m, werr := r.Write(buf[:n])
			total += int64(m)
			if werr != nil {
				return total, werr
			}
		}
		if err != nil {
			if err == io.EOF {
				return total, nil
			}
			return total, err
		}
	}
}

// libOwnReadErr: what the library's reader answers to a negative count - as the error of a SOURCE (a source stacked on
// another bufiox reader passes such values on).
var libOwnReadErr = func() error {
	_, err := bufiox.NewBytesReader([]byte{1}).Next(-1)
	if err == nil {
		return errX
	}
	return err
}()

// libOwnErr is an error value made by the LIBRARY itself (what its writer answers to a negative count): a sink that is
// built on another bufiox writer passes such values on.  A sink error is a sink error whatever its identity.
var libOwnErr = func() error {
	_, err := bufiox.NewDefaultWriter(io.Discard).Malloc(-1)
	if err == nil {
		return errSink
	}
	return err
}()

// Err is the error this sink fails with (what callers must be able to match with errors.Is).
func (w *EnvWriter) Err() error {
	if w.Mode == 3 {
		return libOwnErr
	}
	return errSink
}

func (w *EnvWriter) Write(p []byte) (int, error) {
	if w.Hook != nil {
		w.Hook()
	}
	w.Calls++
	if w.FailAt > 0 && w.Calls >= w.FailAt {
		switch w.Mode {
		case 1:
			w.Got = append(w.Got, p...)
			return len(p), errSink
		case 2:
			w.Got = append(w.Got, p[:len(p)/2]...)
			return len(p) / 2, timeoutErr{}
		case 3:
			return 0, w.Err()
		}
		return 0, errSink
	}
	w.Chunks = append(w.Chunks, [2]int{len(w.Got), len(p)})
	w.Got = append(w.Got, p...)
	return len(p), nil
}
