package checks

import (
	"bytes"
	"errors"
	"fmt"
	"io"
	"strings"

	"github.com/bytedance/gopkg/lang/mcache"
	"github.com/cloudwego/gopkg/bufiox"

	"verif/mc"
	"verif/vdump"
)

// readerSys drives a real bufiox.DefaultReader / BytesReader in lock-step with a plain
// cursor over the source bytes (the reference model).  It implements mc.System for the
// explicit-state search (C04) and, with Retain/CoTenant set, the zero-copy validity
// check of C09.

type ReaderCfg struct {
	Kind     string `json:"kind"` // "default" (io.Reader-backed) | "bytes"
	DLen     int    `json:"dlen"`
	Env      EnvCfg `json:"env"`
	SpareCap int    `json:"spare_cap"` // bytes reader: cap(buf) - len(buf)
	Sizes    []int  `json:"sizes"`
	Retain   bool   `json:"retain"`    // keep every slice returned since the last Release and re-check it after every op
	CoTenant int    `json:"co_tenant"` // 0 off, 1 adversary keeps what it takes, 2 adversary frees it again
	NoNeg    bool   `json:"no_neg"`
	BigAlloc bool   `json:"big_allocations,omitempty"` // the configuration needs allocations above the usual 64 MiB cap (replay raises the cap too)
	Warm     int    `json:"warm,omitempty"`            // (Next(1), Release) cycles before the history starts (the size-statistics ring wraps at 10)
}

type rop struct {
	kind string // next peek skip readbinary release
	n    int
}

func (o rop) String() string {
	if o.kind == "release" {
		return "Release()"
	}
	return fmt.Sprintf("%s(%d)", o.kind, o.n)
}

type retained struct {
	b   []byte
	off int
}

type readerSys struct {
	cfg ReaderCfg
	ops []rop
	D   []byte

	env    *EnvReader
	r      bufiox.Reader
	dr     *bufiox.DefaultReader
	caller []byte // bytes reader: caller-owned array (full capacity)
	snap   []byte
	// model
	pos, base int
	kept      []retained
	ch        *mc.Chooser
	devMax    int
	dead      bool

	warmWhat, warmSig string
}

func newReaderSys(cfg ReaderCfg) *readerSys {
	s := &readerSys{cfg: cfg}
	for _, k := range []string{"next", "peek", "skip", "readbinary"} {
		for _, n := range cfg.Sizes {
			s.ops = append(s.ops, rop{k, n})
		}
		if !cfg.NoNeg && k != "readbinary" {
			s.ops = append(s.ops, rop{k, -1})
		}
	}
	s.ops = append(s.ops, rop{"release", 0})
	s.D = stream(cfg.DLen)
	return s
}

func (s *readerSys) NumOps() int         { return len(s.ops) }
func (s *readerSys) Enabled(op int) bool { return !s.dead }

func (s *readerSys) Reset() {
	mcache.VerifReset()
	s.pos, s.base, s.kept, s.dead = 0, 0, s.kept[:0], false
	if s.cfg.Kind == "bytes" {
		// caller-owned memory: content beyond len is the caller's too and must stay untouched
		n := s.cfg.DLen + s.cfg.SpareCap
		if cap(s.caller) != n {
			s.caller = make([]byte, n)
			s.snap = make([]byte, n)
		}
		s.caller = s.caller[:n]
		copy(s.caller, s.D)
		for i := s.cfg.DLen; i < n; i++ {
			s.caller[i] = 0x80 | byte(i%61)
		}
		copy(s.snap, s.caller)
		br := bufiox.NewBytesReader(s.caller[:s.cfg.DLen])
		s.r, s.dr, s.env = br, &br.DefaultReader, nil
	} else {
		s.env = NewEnvReader(s.D, s.cfg.Env)
		s.env.Ch, s.env.DevMax = s.ch, s.devMax
		dr := bufiox.NewDefaultReader(s.env.Src())
		s.r, s.dr = dr, dr
	}
	s.warmWhat, s.warmSig = "", ""
	if s.cfg.Warm > 0 {
		has := false
		for _, o := range s.ops {
			has = has || o == rop{"next", 1}
		}
		if !has {
			panic("readersys: a Warm configuration needs size 1 in its alphabet (the warm-up cycles are Next(1), Release)")
		}
	}
	for i := 0; i < s.cfg.Warm && s.warmWhat == ""; i++ {
		for _, want := range []rop{{"next", 1}, {"release", 0}} {
			for oi, o := range s.ops {
				if o == want {
					if what, sig := s.Apply(oi, true); what != "" && s.warmWhat == "" {
						s.warmWhat, s.warmSig = fmt.Sprintf("warm-up cycle %d: %s", i, what), sig
					}
					break
				}
			}
		}
	}
}

func (s *readerSys) termErr() error {
	if s.cfg.Kind == "bytes" {
		return nil // the bytes reader's terminal error is its own business: any non-nil error
	}
	return termErrs[s.cfg.Env.Err]
}

func (s *readerSys) Key() string {
	var b strings.Builder
	// every private field of the reader, read by reflection (no field is named): lengths, capacities and CONTENTS of
	// its buffers (so a state whose buffered bytes differ is a different state and is expanded, never merged away),
	// cursor, flags, parked buffers, sticky error, size statistics
	b.WriteString(vdump.Key(s.dr, vdump.Opt{Content: true}))
	fmt.Fprintf(&b, "|p%d|b%d|", s.pos, s.base)
	if s.env != nil {
		fmt.Fprintf(&b, "s%d/%d/%d/%d/%v|", s.env.pos, s.env.zr, s.env.tz, s.env.dataReads, s.env.ErrReturned)
	}
	if s.cfg.Retain {
		for _, k := range s.kept {
			fmt.Fprintf(&b, "k%d+%d,", k.off, len(k.b))
		}
		b.WriteString(mcache.VerifStateKey())
	}
	return b.String()
}

// Apply executes one operation on the real reader and on the cursor model.
func (s *readerSys) Apply(op int, check bool) (what, sig string) {
	if s.warmWhat != "" { // a violation met during the warm-up cycles is reported by the first transition
		what, sig = s.warmWhat, s.warmSig
		s.warmWhat = ""
		s.dead = true
		return
	}
	o := s.ops[op]
	if s.cfg.CoTenant != 0 {
		mcache.VerifCoTenant(s.cfg.CoTenant == 1)
	}
	fail := func(class, format string, a ...interface{}) {
		if what == "" {
			what = fmt.Sprintf("%s: ", o) + fmt.Sprintf(format, a...)
			sig = fmt.Sprintf("%s.%s|%s", s.cfg.Kind, o.kind, class)
		}
	}
	avail := len(s.D) - s.pos
	E := s.termErr()
	// the source's own error is what surfaces - unless the source has not produced it yet: a reader may give up on a source
	// that keeps answering (0, nil) with io.ErrNoProgress (after how many empty reads is its own business)
	errOK := func(err error) bool {
		return err != nil && (E == nil || errors.Is(err, E) || (s.env != nil && !s.env.ErrReturned && errors.Is(err, io.ErrNoProgress)))
	}
	pi := mc.Try(func() {
		switch o.kind {
		case "next", "peek":
			var b []byte
			var err error
			if o.kind == "next" {
				b, err = s.r.Next(o.n)
			} else {
				b, err = s.r.Peek(o.n)
			}
			switch {
			case o.n < 0:
				if err == nil {
					fail("neg-accepted", "negative count accepted")
				}
			case o.n <= avail:
				if err != nil {
					fail("spurious-error", "%d bytes are available at offset %d but the call failed: %v", avail, s.pos, err)
					s.dead = true
				} else if len(b) != o.n {
					fail("short-nil-error", "returned %d bytes with a nil error, want exactly %d", len(b), o.n)
					s.dead = true
				} else if !bytes.Equal(b, s.D[s.pos:s.pos+o.n]) {
					fail("wrong-bytes", "returned bytes differ from the source at offset %d (first difference at +%d)", s.pos, firstDiff(b, s.D[s.pos:s.pos+o.n]))
					s.dead = true
				} else {
					if s.cfg.Retain && o.n > 0 {
						s.kept = append(s.kept, retained{b, s.pos})
					}
					if o.kind == "next" {
						s.pos += o.n
					}
				}
			default: // data runs out
				if err == nil {
					fail("short-nil-error", "only %d bytes remain at offset %d but the call returned %d bytes and a nil error", avail, s.pos, len(b))
					s.dead = true
				} else if !errOK(err) {
					fail("wrong-error", "data ran out: error %q does not match the source's error %q", err, E)
				}
				// (what a failed call returns besides its error is not specified; that it consumed nothing shows in the next operations)
			}
		case "skip":
			err := s.r.Skip(o.n)
			switch {
			case o.n < 0:
				if err == nil {
					fail("neg-accepted", "negative count accepted")
				}
			case o.n <= avail:
				if err != nil {
					fail("spurious-error", "%d bytes are available at offset %d but Skip failed: %v", avail, s.pos, err)
					s.dead = true
				} else {
					s.pos += o.n
				}
			default:
				if err == nil {
					fail("short-nil-error", "only %d bytes remain but Skip(%d) returned nil", avail, o.n)
					s.dead = true
				} else if !errOK(err) {
					fail("wrong-error", "data ran out: error %q does not match the source's error %q", err, E)
				}
			}
		case "readbinary":
			p := make([]byte, o.n)
			for i := range p {
				p[i] = 0xEE
			}
			m, err := s.r.ReadBinary(p)
			switch {
			case m < 0 || m > len(p):
				fail("over-report", "reported %d bytes for a %d-byte request", m, len(p))
				s.dead = true
			case m > avail:
				fail("over-report", "reported %d bytes but only %d remain", m, avail)
				s.dead = true
			case !bytes.Equal(p[:m], s.D[s.pos:s.pos+m]):
				fail("wrong-bytes", "copied bytes differ from the source at offset %d (first difference at +%d)", s.pos, firstDiff(p[:m], s.D[s.pos:s.pos+m]))
				s.dead = true
			case m < len(p) && err == nil:
				fail("short-nil-error", "reported %d < %d bytes with a nil error", m, len(p))
				s.dead = true
			case m < len(p) && o.n <= avail:
				fail("spurious-error", "%d bytes are available but ReadBinary delivered %d: %v", avail, m, err)
				s.dead = true
			case m < len(p) && m < avail:
				fail("error-before-data-ran-out", "ReadBinary(%d bytes) delivered %d bytes and the error %v although %d bytes of source data were still undelivered (the source's error must surface only once data runs out)", len(p), m, err, avail)
				s.dead = true
			case m < len(p) && !errOK(err):
				fail("wrong-error", "data ran out: error %q does not match the source's error %q", err, E)
				s.pos += m
			default:
				s.pos += m
			}
		case "release":
			// Release is told the error the caller's decoding ended with (if any); what the reader does must not depend on it.
			// Histories with an odd number of bytes consumed since the last Release pass a non-nil error.
			var arg error
			if (s.pos-s.base)%2 == 1 {
				arg = errX
			}
			s.r.Release(arg) // (what Release returns is not specified by any property)
			s.base = s.pos
			s.kept = s.kept[:0]
		}
		if what == "" && !s.dead {
			if got := s.r.ReadLen(); got != s.pos-s.base {
				fail("readlen", "ReadLen() = %d, want %d (consumed since last Release)", got, s.pos-s.base)
				s.dead = true
			}
		}
	})
	if pi != nil {
		what, sig = "", ""
		fail("panic", "panic: %s at %s", pi.Msg, pi.Frame)
		s.dead = true
		return
	}
	if !check && what == "" {
		return
	}
	// zero-copy validity: every slice handed out since the last Release still holds the source bytes
	for _, k := range s.kept {
		if !bytes.Equal(k.b, s.D[k.off:k.off+len(k.b)]) {
			at := firstDiff(k.b, s.D[k.off:k.off+len(k.b)])
			fail("retained-slice-changed", "a slice of %d bytes handed out earlier at offset %d (not yet released) changed at +%d: byte %#x, want %#x (0xdd=freed, 0xc7=another tenant, 0xa5=recycled)", len(k.b), k.off, at, k.b[at], s.D[k.off+at])
			s.dead = true
			break
		}
	}
	if s.cfg.Kind == "bytes" && !bytes.Equal(s.caller, s.snap) {
		fail("caller-memory-modified", "the caller's slice was modified at index %d (len %d, cap %d)", firstDiff(s.caller, s.snap), s.cfg.DLen, len(s.caller))
		s.dead = true
	}
	if s.cfg.CoTenant != 0 || s.cfg.Retain {
		mcache.VerifAuditCoTenant()
	}
	if a := mcache.VerifTakeAudit(); len(a) > 0 {
		fail("pool-audit:"+auditClass(a[0]), "buffer pool audit: %s", strings.Join(a, "; "))
		s.dead = true
	}
	return
}

func auditClass(a string) string {
	if i := strings.IndexByte(a, ':'); i > 0 {
		a = a[:i]
	}
	if i := strings.Index(a, " of pooled"); i > 0 {
		a = a[:i]
	}
	if i := strings.Index(a, " with wrong"); i > 0 {
		a = a[:i]
	}
	return a
}

func firstDiff(a, b []byte) int {
	n := len(a)
	if len(b) < n {
		n = len(b)
	}
	for i := 0; i < n; i++ {
		if a[i] != b[i] {
			return i
		}
	}
	return n
}

func (s *readerSys) histString(h []int) []string {
	r := make([]string, len(h))
	for i, o := range h {
		r[i] = s.ops[o].String()
	}
	return r
}
