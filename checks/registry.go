// Package checks holds one harness per property (cNN.go) plus shared helpers.
package checks

import (
	"encoding/json"
	"time"

	"verif/mc"
)

type Check struct {
	ID          string
	Level       string // evidence level: exploration | model_checking | fault_enumeration
	Rule        string
	Assumptions []string
	Shards      int // 0 = one per core
	Procs       int // GOMAXPROCS of each worker (0 = 2); 1 for the cooperative scheduler (hand-offs stay inside one OS thread)
	Quick       time.Duration
	Thorough    time.Duration
	Run         func(c *mc.Ctx)
	// Replay re-executes one recorded case of sub-check `sub`; it must call c.Violate again if the case still fails.
	Replay func(c *mc.Ctx, sub string, raw json.RawMessage)
	// UnownedNondet (optional) tells whether a recorded case involves nondeterminism the harness cannot own
	// (Go map iteration order inside the code under test).  Such a case counts as reproduced if it fails
	// again, with the same signature, in at least one of 8 re-executions; every other case must fail in 3 of 3.
	UnownedNondet func(sub string, raw json.RawMessage) bool
	// SameFinding (optional) relaxes the replay gate's signature comparison: a memory-safety defect may show as a
	// different panic/fault on re-execution (what lies outside the slice is not owned); default is equality.
	SameFinding func(recorded, got string) bool
	// Post (optional) runs in the parent after all shards finished, e.g. the free-running -race complement.
	Post func(tier string) (extra map[string]interface{}, violations []mc.Violation)
}

var All = map[string]*Check{}

func Register(c *Check) {
	if c.Quick == 0 {
		c.Quick = 100 * time.Second
	}
	if c.Thorough == 0 {
		c.Thorough = 20 * time.Minute
	}
	All[c.ID] = c
}

// replayAs is a helper to build Replay functions: unmarshal into T and run.
func replayAs[T any](raw json.RawMessage, f func(k T)) {
	var k T
	if err := mc.UnmarshalCase(raw, &k); err != nil {
		panic("replay: cannot decode case: " + err.Error())
	}
	f(k)
}
