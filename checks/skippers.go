package checks

import (
	"errors"
	"fmt"

	"github.com/bytedance/gopkg/lang/dirtmake"
	"github.com/bytedance/gopkg/lang/mcache"
	"github.com/cloudwego/gopkg/bufiox"
	"github.com/cloudwego/gopkg/protocol/thrift"
	vsync "github.com/cloudwego/gopkg/verifshim/vsync"

	"verif/mc"
)

// The five skipping facilities of the property, over the readers they can sit on.
const (
	skBinary     = "Binary.Skip"
	skBufBytes   = "BufferReader.Skip/BytesReader"
	skBufStream  = "BufferReader.Skip/DefaultReader"
	skDecBytesR  = "SkipDecoder/BytesReader"
	skDecStream  = "SkipDecoder/DefaultReader"
	skBytesSkip  = "BytesSkipDecoder"
	skReaderSkip = "ReaderSkipDecoder"
	skTplCustom  = "SkipDecoderTpl/custom-buffer-reusing-iface"
	skBinStack   = "Binary.Skip/input-in-a-local-array-on-the-goroutine-stack"
	skBufLenient = "BufferReader.Skip/caller-implemented-reader-lenient-about-non-positive-requests"
	skDecLenient = "SkipDecoder/caller-implemented-reader-lenient-about-non-positive-requests"
)

var memSkippers = []string{skBinary, skBufBytes, skDecBytesR, skBytesSkip, skTplCustom, skBinStack}
var streamSkippers = []string{skBufStream, skDecStream, skReaderSkip, skBufLenient, skDecLenient}
var allSkippers = []string{skBinary, skBufBytes, skDecBytesR, skBytesSkip, skTplCustom, skBinStack, skBufStream, skDecStream, skReaderSkip, skBufLenient, skDecLenient}

func isStreamSkipper(s string) bool {
	return s == skBufStream || s == skDecStream || s == skReaderSkip || s == skBufLenient || s == skDecLenient
}

type skipOut struct {
	StackMismatch bool // the stack-held input gave another result than the heap-held one
	LateReads     int  // Read calls issued on the source after the whole value had been delivered
	OK            bool
	N             int    // reported / consumed length
	Bytes         []byte // decoder result (nil for the non-decoder skippers)
	HasBytes      bool
	Err           error
	Panic         *mc.PanicInfo
	AllocCap      bool
	ReadLen       int  // bufiox ReadLen after the call (-1 if n/a)
	SrcOut        int  // bytes the io.Reader handed out (-1 if n/a)
	NextByte      int  // first byte readable after the call (-1 = none / not probed)
	NextOK        bool // NextByte probed
}

func setAllocCap(n int) {
	mcache.VerifAllocCap = n
	dirtmake.VerifAllocCap = n
}

// runSkipper applies one skipping facility to input (value followed by trailing bytes).
// probeNext asks for the byte that follows (only after success).
// skNeed: length of the value about to be skipped (0 = unknown); lets the source count Read calls issued after the
// whole value had been delivered.
var skNeed int

func runSkipper(which string, input []byte, t int8, env EnvCfg, probeNext bool) (o skipOut) {
	return runSkipperOpt(which, input, t, env, probeNext, true)
}

// runSkipperOpt: with reset=false the object pools and the buffer pool keep what the previous case left there
// (a decoder returned to its pool after a failure must be as good as new).
func runSkipperOpt(which string, input []byte, t int8, env EnvCfg, probeNext, reset bool) (o skipOut) {
	o.ReadLen, o.SrcOut, o.NextByte = -1, -1, -1
	if !reset {
		goto run
	}
	// every case starts from empty object pools and an empty buffer pool (pooled ReaderSkipDecoders keep their
	// scratch buffer, so the two must be reset together; pool reuse is exercised by the decoder histories and C14)
	vsync.Reset()
	mcache.VerifReset()
run:
	var er *EnvReader
	pi := mc.Try(func() {
		switch which {
		case skBinary:
			n, err := thrift.Binary.Skip(input, thrift.TType(t))
			o.N, o.Err, o.OK = n, err, err == nil
			if o.OK && probeNext {
				o.NextOK = true
				if n >= 0 && n < len(input) {
					o.NextByte = int(input[n])
				}
			}
		case skBinStack:
			// the same call on a copy of the input held in a local array of a fresh goroutine, for three amounts of stack
			// already in use; inputs that do not fit the array run on the heap copy
			n, err, mismatch, ok := binarySkipOnStack(input, t)
			if !ok {
				n, err = thrift.Binary.Skip(input, thrift.TType(t))
			}
			o.N, o.Err, o.OK = n, err, err == nil
			if mismatch != "" {
				o.N, o.Err, o.OK = -1, errors.New(mismatch), false
				o.StackMismatch = true
			}
			if o.OK && probeNext {
				o.NextOK = true
				if o.N >= 0 && o.N < len(input) {
					o.NextByte = int(input[o.N])
				}
			}
		case skBufBytes, skBufStream, skBufLenient:
			var r bufiox.Reader
			if which == skBufBytes {
				r = bufiox.NewBytesReader(input)
			} else {
				er = NewEnvReader(input, env)
				er.Need = skNeed
				r = bufiox.NewDefaultReader(er.Src())
				if which == skBufLenient {
					r = lenientReader{customReader{r}}
				}
			}
			br := thrift.NewBufferReader(r)
			err := br.Skip(thrift.TType(t))
			if er != nil {
				o.LateReads = er.LateCalls
			}
			o.Err, o.OK = err, err == nil
			o.N = int(br.Readn())
			o.ReadLen = r.ReadLen()
			if o.OK && probeNext {
				o.NextOK = true
				if b, e := r.Peek(1); e == nil && len(b) == 1 {
					o.NextByte = int(b[0])
				}
			}
			br.Recycle()
			r.Release(nil)
		case skDecBytesR, skDecStream, skDecLenient:
			var r bufiox.Reader
			if which == skDecBytesR {
				r = bufiox.NewBytesReader(input)
			} else {
				er = NewEnvReader(input, env)
				er.Need = skNeed
				r = bufiox.NewDefaultReader(er.Src())
				if which == skDecLenient {
					r = lenientReader{customReader{r}}
				}
			}
			d := thrift.NewSkipDecoder(r)
			b, err := d.Next(thrift.TType(t))
			if er != nil {
				o.LateReads = er.LateCalls
			}
			o.Err, o.OK = err, err == nil
			o.ReadLen = r.ReadLen()
			o.N = o.ReadLen
			if o.OK {
				o.Bytes, o.HasBytes = append([]byte(nil), b...), true
				if probeNext {
					o.NextOK = true
					if nb, e := r.Peek(1); e == nil && len(nb) == 1 {
						o.NextByte = int(nb[0])
					}
				}
			}
			d.Release()
			r.Release(nil)
		case skBytesSkip:
			d := thrift.NewBytesSkipDecoder(input)
			b, err := d.Next(thrift.TType(t))
			o.Err, o.OK = err, err == nil
			if o.OK {
				o.Bytes, o.HasBytes = append([]byte(nil), b...), true
				o.N = len(b)
				if probeNext {
					// the decoder continues right after the value: skipping a BYTE yields the next input byte
					o.NextOK = true
					if nb, e := d.Next(thrift.BYTE); e == nil && len(nb) == 1 {
						o.NextByte = int(nb[0])
					}
				}
			}
			d.Release()
		case skTplCustom:
			rs := &reuseSkipper{b: input}
			err := thrift.NewSkipDecoderTpl(rs).Skip(thrift.TType(t), 64)
			o.Err, o.OK = err, err == nil
			o.N = rs.off
			if o.OK && probeNext {
				o.NextOK = true
				if rs.off < len(input) {
					o.NextByte = int(input[rs.off])
				}
			}
		case skReaderSkip:
			er = NewEnvReader(input, env)
			er.Need = skNeed
			d := thrift.NewReaderSkipDecoder(er.Src())
			b, err := d.Next(thrift.TType(t))
			o.LateReads = er.LateCalls
			o.Err, o.OK = err, err == nil
			if o.OK {
				o.Bytes, o.HasBytes = append([]byte(nil), b...), true
				o.N = len(b)
			}
			d.Release()
		default:
			panic("unknown skipper " + which)
		}
	})
	if er != nil {
		o.SrcOut = er.BytesOut
	}
	if pi != nil {
		o.OK = false
		if pi.IsAllocCap() {
			o.AllocCap = true
			vsync.Reset() // objects were not returned to their pools
		} else {
			o.Panic = pi
			vsync.Reset()
		}
	}
	return
}

// protoTypeID extracts the Thrift protocol-exception type id of err (-1 if it is not one).
func protoTypeID(err error) int32 {
	var pe *thrift.ProtocolException
	if errors.As(err, &pe) {
		return pe.TypeId()
	}
	return -1
}

func describeOut(o skipOut) string {
	switch {
	case o.Panic != nil:
		return fmt.Sprintf("panic %q at %s", o.Panic.Msg, o.Panic.Frame)
	case o.AllocCap:
		return "allocation of the declared size (cap hit)"
	case o.OK:
		return fmt.Sprintf("accepted, n=%d", o.N)
	default:
		return fmt.Sprintf("rejected: %v", o.Err)
	}
}
