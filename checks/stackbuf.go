package checks

import (
	"fmt"
	"strings"

	"github.com/cloudwego/gopkg/protocol/thrift"
	"github.com/cloudwego/gopkg/protocol/thrift/base"
)

// Inputs that live on the goroutine stack.  A caller may well decode from a local array (a small receive buffer, a
// test fixture); Go moves goroutine stacks when they grow, and with them every local array.  Code that keeps an
// address of its input as an integer (uintptr) across a call that can grow the stack then works with a stale address.
// The helpers below run an in-memory entry point on a copy of the input held in a local array, inside a fresh
// goroutine (small initial stack), after burning `pad` frames so that the point at which the stack has to grow falls at
// different depths of the callee's recursion.

const stackBufMax = 2048

//go:noinline
func stackPad(k int, f func()) {
	var burn [96]byte
	burn[k%96] = byte(k)
	if k > 0 {
		stackPad(k-1, f)
	} else {
		f()
	}
	_ = burn[(k+1)%96]
}

//go:noinline
func skipFromStack512(in []byte, cut int, t int8) (int, error) {
	var buf [512]byte
	copy(buf[:], in) // the array holds ALL of in; the callee is given only buf[:cut]
	return thrift.Binary.Skip(buf[:cut], thrift.TType(t))
}

//go:noinline
func skipFromStack2048(in []byte, cut int, t int8) (int, error) {
	var buf [stackBufMax]byte
	copy(buf[:], in)
	return thrift.Binary.Skip(buf[:cut], thrift.TType(t))
}

// binarySkipOnStack runs Binary.Skip on stack-held copies of in[:cut] for cut = len(in), len(in)-1 and len(in)/2 (the
// array behind the slice always holds all of in, so a callee that looks beyond its slice finds plausible bytes there),
// for several amounts of stack already in use, and compares each result with the same call on an exact-size heap copy.
// A stale end address is too low or too high depending on where the runtime put the new stack: too low rejects valid
// input, too high accepts truncated input and over-reports; one case covers both directions.  ok is false if in does
// not fit the array; mismatch is "" if every result agrees.
func binarySkipOnStack(in []byte, t int8) (n int, err error, mismatch string, ok bool) {
	if len(in) > stackBufMax || len(in) == 0 {
		return 0, nil, "", false
	}
	for ci, cut := range []int{len(in), len(in) - 1, len(in) / 2} {
		heap := append(make([]byte, 0, cut), in[:cut]...)
		hn, herr := thrift.Binary.Skip(heap, thrift.TType(t))
		if ci == 0 {
			n, err = hn, herr
		}
		for _, pad := range []int{0, 3, 11} {
			var sn int
			var serr error
			onFreshStack(pad, func() {
				if len(in) <= 512 {
					sn, serr = skipFromStack512(in, cut, t)
				} else {
					sn, serr = skipFromStack2048(in, cut, t)
				}
			})
			if (serr == nil) != (herr == nil) || (serr == nil && sn != hn) {
				return n, err, fmt.Sprintf("on the first %d of %d bytes held in a local array (goroutine stack, %d frames already in use) the call returned (%d, %v), on a heap copy of the same bytes (%d, %v): bounds kept as integers went stale when the stack moved", cut, len(in), pad, sn, serr, hn, herr), true
			}
		}
	}
	return n, err, "", true
}

// onFreshStack runs f in a fresh goroutine after burning pad frames and re-raises its panic in the caller.
func onFreshStack(pad int, f func()) {
	done := make(chan struct{})
	var pnc interface{}
	go func() {
		defer close(done)
		defer func() { pnc = recover() }()
		stackPad(pad, f)
	}()
	<-done
	if pnc != nil {
		panic(pnc)
	}
}

// ---- FastRead of the shipped structs on stack-held input ----

//go:noinline
func baseFromStack(in []byte, cut int) (x base.Base, n int, err error) {
	var buf [512]byte
	copy(buf[:], in)
	n, err = x.FastRead(buf[:cut])
	return
}

//go:noinline
func baseRespFromStack(in []byte, cut int) (x base.BaseResp, n int, err error) {
	var buf [512]byte
	copy(buf[:], in)
	n, err = x.FastRead(buf[:cut])
	return
}

//go:noinline
func excFromStack(in []byte, cut int) (x *thrift.ApplicationException, n int, err error) {
	var buf [512]byte
	copy(buf[:], in)
	x = thrift.NewApplicationException(0, "")
	n, err = x.FastRead(buf[:cut])
	return
}

// fastReadOnStack decodes in[:cut] (cut = len(in) and len(in)-1) from a local array of a fresh goroutine and from an
// exact-size heap copy and returns a description of the first difference ("" if none, or if in does not fit).
func fastReadOnStack(kind string, in []byte) string {
	if len(in) > 512 || len(in) == 0 {
		return ""
	}
	render := func(kind string, cut int, stack bool, pad int) (out string) {
		run := func() {
			src := in
			if !stack {
				src = append(make([]byte, 0, cut), in[:cut]...)
			}
			switch kind {
			case "base":
				var x base.Base
				var n int
				var err error
				if stack {
					x, n, err = baseFromStack(in, cut)
				} else {
					n, err = x.FastRead(src[:cut])
				}
				out = fmt.Sprintf("n=%d ok=%v %q %q %q %v", n, err == nil, x.LogID, x.Caller, x.Addr, len(x.Extra))
			case "baseresp":
				var x base.BaseResp
				var n int
				var err error
				if stack {
					x, n, err = baseRespFromStack(in, cut)
				} else {
					n, err = x.FastRead(src[:cut])
				}
				out = fmt.Sprintf("n=%d ok=%v %q %d %v", n, err == nil, x.StatusMessage, x.StatusCode, len(x.Extra))
			default:
				x := thrift.NewApplicationException(0, "")
				var n int
				var err error
				if stack {
					x, n, err = excFromStack(in, cut)
				} else {
					n, err = x.FastRead(src[:cut])
				}
				out = fmt.Sprintf("n=%d ok=%v %q %d", n, err == nil, x.Msg(), x.TypeID())
			}
			if strings.Contains(out, "ok=false") {
				out = out[:strings.Index(out, "ok=false")+8] // on failure only the verdict is compared
			}
		}
		if stack {
			onFreshStack(pad, run)
		} else {
			run()
		}
		return
	}
	for _, cut := range []int{len(in), len(in) - 1} {
		want := render(kind, cut, false, 0)
		for _, pad := range []int{0, 3, 11} {
			if got := render(kind, cut, true, pad); got != want {
				return fmt.Sprintf("decoding the first %d of %d bytes from a local array (goroutine stack, %d frames in use) gives [%s], from a heap copy of the same bytes [%s]", cut, len(in), pad, got, want)
			}
		}
	}
	return ""
}
