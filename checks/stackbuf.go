package checks

import (
	"fmt"

	"github.com/cloudwego/gopkg/protocol/thrift"
)

// Inputs that live on the goroutine stack.  A caller may well decode from a local array (a small receive buffer, a
// test fixture); Go moves goroutine stacks when they grow, and with them every local array.  Code that keeps an
// address of its input as an integer (uintptr) across a call that can grow the stack then works with a stale address.
// The helpers below run an in-memory entry point on a copy of the input held in a local array, inside a fresh
// goroutine (small initial stack), after burning `pad` frames so that the point at which the stack has to grow falls at
// different depths of the callee's recursion.

const stackBufMax = 2048

//go:noinline
func stackPad(k int, f func()) {
	var burn [96]byte
	burn[k%96] = byte(k)
	if k > 0 {
		stackPad(k-1, f)
	} else {
		f()
	}
	_ = burn[(k+1)%96]
}

//go:noinline
func skipFromStack512(in []byte, cut int, t int8) (int, error) {
	var buf [512]byte
	copy(buf[:], in) // the array holds ALL of in; the callee is given only buf[:cut]
	return thrift.Binary.Skip(buf[:cut], thrift.TType(t))
}

//go:noinline
func skipFromStack2048(in []byte, cut int, t int8) (int, error) {
	var buf [stackBufMax]byte
	copy(buf[:], in)
	return thrift.Binary.Skip(buf[:cut], thrift.TType(t))
}

// binarySkipOnStack runs Binary.Skip on stack-held copies of in[:cut] for cut = len(in), len(in)-1 and len(in)/2 (the
// array behind the slice always holds all of in, so a callee that looks beyond its slice finds plausible bytes there),
// for several amounts of stack already in use, and compares each result with the same call on an exact-size heap copy.
// A stale end address is too low or too high depending on where the runtime put the new stack: too low rejects valid
// input, too high accepts truncated input and over-reports; one case covers both directions.  ok is false if in does
// not fit the array; mismatch is "" if every result agrees.
func binarySkipOnStack(in []byte, t int8) (n int, err error, mismatch string, ok bool) {
	if len(in) > stackBufMax || len(in) == 0 {
		return 0, nil, "", false
	}
	for ci, cut := range []int{len(in), len(in) - 1, len(in) / 2} {
		heap := append(make([]byte, 0, cut), in[:cut]...)
		hn, herr := thrift.Binary.Skip(heap, thrift.TType(t))
		if ci == 0 {
			n, err = hn, herr
		}
		for _, pad := range []int{0, 3, 11} {
			var sn int
			var serr error
			onFreshStack(pad, func() {
				if len(in) <= 512 {
					sn, serr = skipFromStack512(in, cut, t)
				} else {
					sn, serr = skipFromStack2048(in, cut, t)
				}
			})
			if (serr == nil) != (herr == nil) || (serr == nil && sn != hn) {
				return n, err, fmt.Sprintf("on the first %d of %d bytes held in a local array (goroutine stack, %d frames already in use) the call returned (%d, %v), on a heap copy of the same bytes (%d, %v): bounds kept as integers went stale when the stack moved", cut, len(in), pad, sn, serr, hn, herr), true
			}
		}
	}
	return n, err, "", true
}

// onFreshStack runs f in a fresh goroutine after burning pad frames and re-raises its panic in the caller.
func onFreshStack(pad int, f func()) {
	done := make(chan struct{})
	var pnc interface{}
	go func() {
		defer close(done)
		defer func() { pnc = recover() }()
		stackPad(pad, f)
	}()
	<-done
	if pnc != nil {
		panic(pnc)
	}
}
