package checks

import (
	"io"

	"github.com/cloudwego/gopkg/bufiox"

	"verif/vdump"
)

// verifTrap is stored (by reflection, verif/vdump) into every reader/writer reference of a pooled object when it is
// returned to its pool: any later USE of the object through such a stale reference panics with this message.
type verifTrap struct{}

const verifTrapMsg = "verif: use of a pooled object after it was returned to its pool"

func (verifTrap) Next(n int) ([]byte, error)         { panic(verifTrapMsg) }
func (verifTrap) ReadBinary(bs []byte) (int, error)  { panic(verifTrapMsg) }
func (verifTrap) Peek(n int) ([]byte, error)         { panic(verifTrapMsg) }
func (verifTrap) Skip(n int) error                   { panic(verifTrapMsg) }
func (verifTrap) ReadLen() int                       { panic(verifTrapMsg) }
func (verifTrap) Release(e error) error              { panic(verifTrapMsg) }
func (verifTrap) Malloc(n int) ([]byte, error)       { panic(verifTrapMsg) }
func (verifTrap) WriteBinary(bs []byte) (int, error) { panic(verifTrapMsg) }
func (verifTrap) WrittenLen() int                    { panic(verifTrapMsg) }
func (verifTrap) Flush() error                       { panic(verifTrapMsg) }
func (verifTrap) Read(p []byte) (int, error)         { panic(verifTrapMsg) }
func (verifTrap) Write(p []byte) (int, error)        { panic(verifTrapMsg) }

var (
	_ bufiox.Reader = verifTrap{}
	_ bufiox.Writer = verifTrap{}
	_ io.Reader     = verifTrap{}
	_ io.Writer     = verifTrap{}
)

// pooledSnapshot renders the fields of a pooled object (identity and extent of its buffers, scalar fields, dynamic
// types of its references); contents of buffers are not included (they may be large).
func pooledSnapshot(x interface{}) string {
	return vdump.Key(x, vdump.Opt{Pointers: true})
}

// armAndSnapshot is called when a pooled object is Put: it arms the trap and returns the snapshot.  The same snapshot
// taken when the object is next handed out (or at the end of the execution) must be identical: a write to an object
// after it was returned to the pool races with its next owner.
func armAndSnapshot(x interface{}) string {
	vdump.ArmTraps(x, verifTrap{})
	return pooledSnapshot(x)
}
