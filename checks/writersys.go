package checks

import (
	"bytes"
	"errors"
	"fmt"
	"strings"
	"unsafe"

	"github.com/bytedance/gopkg/lang/mcache"
	"github.com/cloudwego/gopkg/bufiox"

	"verif/mc"
	"verif/vdump"
)

// writerSys drives a real bufiox.DefaultWriter / BytesWriter in lock-step with the
// reference model "list of regions; the sink must receive their concatenation, each
// exactly once, in order" (C05), and with LateFill/CoTenant the zero-copy region
// validity check of C09.

type WriterCfg struct {
	Kind           string `json:"kind"` // "default" | "bytes"
	FailAt         int    `json:"fail_at"`
	InitLen        int    `json:"init_len"` // bytes writer: len of the initial slice
	InitCap        int    `json:"init_cap"` // bytes writer: cap of the initial slice (-1 = nil slice)
	Sizes          []int  `json:"sizes"`
	Reverse        bool   `json:"reverse"`   // late regions are filled in reverse order of allocation
	CoTenant       int    `json:"co_tenant"` // 0 off, 1 keep, 2 free again
	PayPow2        bool   `json:"pay_pow2"`  // WriteBinary payloads live in buffers of power-of-two capacity
	RichSink       bool   `json:"sink_has_WriteString_ReadFrom,omitempty"`
	SinkFlushFails bool   `json:"sink_flush_method_fails,omitempty"` // (RichSink) the sink's own Flush method returns an error; a writer that chooses to call it has a failed flush
	SinkMode       int    `json:"sink_mode,omitempty"`               // how the sink fails: 0 (0,err); 1 (len,err); 2 (len/2, timeout error); 3 (0, an error value made by the library itself)
	Warm           int    `json:"warm,omitempty"`                    // (Malloc(1), Flush) cycles performed before the history starts (size-statistics ring wraps at 10)
}

type wop struct {
	kind string // malloc malloclate writebinary flush
	n    int
}

func (o wop) String() string {
	if o.kind == "flush" {
		return "Flush()"
	}
	return fmt.Sprintf("%s(%d)", o.kind, o.n)
}

type region struct {
	b      []byte // slice handed out by Malloc (nil for WriteBinary payloads)
	want   []byte // content the sink must receive
	filled bool
	pay    []byte // payload buffer passed to WriteBinary (must stay untouched)
}

type writerSys struct {
	cfg WriterCfg
	ops []wop

	sink    *EnvWriter
	w       bufiox.Writer
	dw      *bufiox.DefaultWriter
	target  []byte // bytes writer: the slice variable NewBytesWriter points at
	initArr []byte // bytes writer: caller's initial array, full capacity
	initSnp []byte
	flushes int

	regs     []region // since the last successful flush
	expected []byte   // everything that must have reached the sink so far (after successful flushes)
	pending  int      // unflushed bytes
	nreg     int
	failed   bool // a flush failed: everything must now return that error
	dead     bool

	warmWhat, warmSig string
}

func newWriterSys(cfg WriterCfg) *writerSys {
	s := &writerSys{cfg: cfg}
	for _, k := range []string{"malloc", "malloclate", "writebinary"} {
		for _, n := range cfg.Sizes {
			s.ops = append(s.ops, wop{k, n})
		}
	}
	s.ops = append(s.ops, wop{"malloc", -1}, wop{"flush", 0})
	return s
}

func (s *writerSys) NumOps() int         { return len(s.ops) }
func (s *writerSys) Enabled(op int) bool { return !s.dead }

func stamp(region, n int) []byte {
	b := make([]byte, n)
	for i := range b {
		b[i] = byte((region*37 + i + 31*(i/127)) % 127)
	}
	return b
}

func (s *writerSys) Reset() {
	mcache.VerifReset()
	s.regs, s.expected, s.pending, s.nreg, s.failed, s.dead, s.flushes = nil, nil, 0, 0, false, false, 0
	if s.cfg.Kind == "bytes" {
		if s.cfg.InitCap < 0 {
			s.target, s.initArr, s.initSnp = nil, nil, nil
		} else {
			s.initArr = make([]byte, s.cfg.InitCap)
			for i := range s.initArr {
				s.initArr[i] = 0x80 | byte(i%59) // caller content, also beyond len
			}
			s.initSnp = append([]byte(nil), s.initArr...)
			s.target = s.initArr[:s.cfg.InitLen]
		}
		bw := bufiox.NewBytesWriter(&s.target)
		s.w, s.dw, s.sink = bw, &bw.DefaultWriter, nil
		s.expected = append([]byte(nil), s.target...)
		s.pending = len(s.target)
	} else {
		s.sink = &EnvWriter{FailAt: s.cfg.FailAt, Mode: s.cfg.SinkMode, Rich: s.cfg.RichSink, FlushFails: s.cfg.SinkFlushFails}
		dw := bufiox.NewDefaultWriter(s.sink.Sink())
		s.w, s.dw = dw, dw
	}
	s.warmWhat, s.warmSig = "", ""
	for i := 0; i < s.cfg.Warm && s.warmWhat == ""; i++ {
		for _, o := range s.warmOps() {
			if what, sig := s.Apply(o, true); what != "" {
				s.warmWhat, s.warmSig = fmt.Sprintf("warm-up cycle %d: %s", i, what), sig
				break
			}
		}
	}
}

// warmOps: indices of malloc(1) and flush in the alphabet.
func (s *writerSys) warmOps() []int {
	var r []int
	for i, o := range s.ops {
		if o.kind == "malloc" && o.n == 1 {
			r = append(r, i)
		}
	}
	for i, o := range s.ops {
		if o.kind == "flush" {
			r = append(r, i)
		}
	}
	return r
}

func (s *writerSys) Key() string {
	var b strings.Builder
	// every private field of the writer, read by reflection (no field is named): extents of its buffers, parked
	// buffers, sticky error, size statistics, flags
	b.WriteString(vdump.Key(s.dw, vdump.Opt{}))
	b.WriteString("|")
	if s.sink != nil {
		fmt.Fprintf(&b, "c%d|", s.sink.Calls)
	}
	fmt.Fprintf(&b, "f%d|", s.flushes)
	for _, r := range s.regs {
		if r.b != nil && !r.filled {
			fmt.Fprintf(&b, "L%d,", len(r.b))
		} else {
			fmt.Fprintf(&b, "r%d,", len(r.want))
		}
	}
	if s.cfg.CoTenant != 0 {
		b.WriteString(mcache.VerifStateKey())
	}
	return b.String()
}

func overlap(a, b []byte) bool {
	if len(a) == 0 || len(b) == 0 {
		return false
	}
	a0, b0 := uintptr(unsafe.Pointer(&a[0])), uintptr(unsafe.Pointer(&b[0]))
	return a0 < b0+uintptr(len(b)) && b0 < a0+uintptr(len(a))
}

func (s *writerSys) Apply(op int, check bool) (what, sig string) {
	if s.warmWhat != "" { // a violation met during the warm-up cycles is reported by the first transition
		what, sig = s.warmWhat, s.warmSig
		s.warmWhat = ""
		s.dead = true
		return
	}
	o := s.ops[op]
	if s.cfg.CoTenant != 0 {
		mcache.VerifCoTenant(s.cfg.CoTenant == 1)
	}
	fail := func(class, format string, a ...interface{}) {
		if what == "" {
			what = fmt.Sprintf("%s: ", o) + fmt.Sprintf(format, a...)
			sig = fmt.Sprintf("%s.%s|%s", s.cfg.Kind, o.kind, class)
			s.dead = true
		}
	}
	sticky := func(err error) {
		if s.sink != nil && !bytes.Equal(s.sink.Got, s.expected) {
			fail("resend-after-failure", "after the sink failed, a later call delivered more bytes to it (%d, expected to stay at %d): data is sent twice", len(s.sink.Got), len(s.expected))
			return
		}
		if err == nil {
			fail("error-not-sticky", "the sink failed earlier but this call returned a nil error")
		} else if !errors.Is(err, s.sink.Err()) {
			fail("error-not-sticky", "the sink failed earlier with %q but this call returned %q", s.sink.Err(), err)
		}
	}
	pi := mc.Try(func() {
		switch o.kind {
		case "malloc", "malloclate":
			b, err := s.w.Malloc(o.n)
			if s.failed {
				sticky(err)
				return
			}
			if o.n < 0 {
				if err == nil {
					fail("neg-accepted", "negative count accepted")
				}
				return
			}
			if err != nil {
				fail("spurious-error", "Malloc failed: %v", err)
				return
			}
			if len(b) != o.n {
				fail("malloc-len", "Malloc(%d) returned %d bytes", o.n, len(b))
				return
			}
			for i := range s.regs {
				if s.regs[i].b != nil && overlap(s.regs[i].b, b) {
					fail("regions-overlap", "region of %d bytes overlaps region #%d (%d bytes) handed out earlier and not yet flushed", o.n, i, len(s.regs[i].b))
					return
				}
			}
			r := region{b: b, want: stamp(s.nreg, o.n)}
			s.nreg++
			if o.kind == "malloc" {
				copy(b, r.want)
				r.filled = true
			}
			s.regs = append(s.regs, r)
			s.pending += o.n
		case "writebinary":
			want := stamp(s.nreg, o.n)
			var pay []byte
			if s.cfg.PayPow2 {
				c := 1
				for c < o.n {
					c *= 2
				}
				pay = make([]byte, o.n, c)
			} else {
				pay = make([]byte, o.n, o.n+3)
			}
			copy(pay, want)
			n, err := s.w.WriteBinary(pay)
			if s.failed {
				sticky(err)
				return
			}
			if err != nil || n != o.n {
				fail("writebinary-result", "WriteBinary(%d bytes) = (%d, %v)", o.n, n, err)
				return
			}
			s.nreg++
			s.regs = append(s.regs, region{want: want, pay: pay, filled: true})
			s.pending += o.n
		case "flush":
			// lazily filled regions are written now, just before Flush (any time before Flush is allowed)
			idx := make([]int, 0, len(s.regs))
			for i := range s.regs {
				if s.regs[i].b != nil && !s.regs[i].filled {
					idx = append(idx, i)
				}
			}
			if s.cfg.Reverse {
				for i, j := 0, len(idx)-1; i < j; i, j = i+1, j-1 {
					idx[i], idx[j] = idx[j], idx[i]
				}
			}
			for _, i := range idx {
				copy(s.regs[i].b, s.regs[i].want)
				s.regs[i].filled = true
			}
			err := s.w.Flush()
			if s.failed {
				sticky(err)
				return
			}
			var all []byte
			for _, r := range s.regs {
				all = append(all, r.want...)
			}
			if s.sink != nil {
				willFail := s.sink.FailAt > 0 && s.sink.Calls >= s.sink.FailAt
				if !willFail && err != nil && s.sink.FlushFails && s.sink.FlushCalls > 0 && errors.Is(err, s.sink.Err()) {
					// the writer chose to call the sink's own Flush method, which failed: a failed flush like any other (the
					// bytes had been written to the sink before)
					willFail = true
				}
				if willFail {
					if err == nil {
						fail("sink-error-lost", "the sink rejected the write but Flush returned nil")
					} else if !errors.Is(err, s.sink.Err()) {
						fail("sink-error-lost", "the sink failed with %q but Flush returned %q", s.sink.Err(), err)
					}
					s.failed = true
					// A flush may reach the sink in one Write or in several; whatever the sink accepted before and in the failing
					// Write (nothing / everything / half of THAT write) must be the written bytes, in order, once: a prefix of
					// what this flush had to deliver.  It is all the sink will ever get.
					full := append(append([]byte{}, s.expected...), all...)
					if len(s.sink.Got) < len(s.expected) || len(s.sink.Got) > len(full) || !bytes.Equal(s.sink.Got, full[:len(s.sink.Got)]) {
						fail("sink-content", "after the failed write the sink holds %d bytes that are not a prefix of the %d bytes written so far (first difference at %d)", len(s.sink.Got), len(full), firstDiff(s.sink.Got, full))
					}
					s.expected = append([]byte{}, s.sink.Got...)
					return
				}
				if err != nil {
					fail("spurious-error", "Flush failed: %v", err)
					return
				}
				s.expected = append(s.expected, all...)
				if !bytes.Equal(s.sink.Got, s.expected) {
					at := firstDiff(s.sink.Got, s.expected)
					fail("sink-content", "bytes received by the sink differ from the written regions: sink has %d bytes, expected %d, first difference at %d (region layout %s)", len(s.sink.Got), len(s.expected), at, s.layout())
					return
				}
			} else {
				if err != nil {
					fail("spurious-error", "Flush failed: %v", err)
					return
				}
				if s.flushes == 0 {
					s.expected = append(s.expected, all...)
					if !bytes.Equal(s.target, s.expected) {
						fail("target-content", "bytes writer target after Flush: %d bytes, expected initial %d + written %d; first difference at %d (region layout %s)", len(s.target), s.cfg.InitLen, len(all), firstDiff(s.target, s.expected), s.layout())
						return
					}
				} else {
					// later flushes: the statement is silent on whether the target accumulates; accept both readings
					acc := append(append([]byte(nil), s.expected...), all...)
					// (a Flush with nothing written since the previous one may leave the target as it is)
					if len(all) > 0 && !bytes.Equal(s.target, all) && !bytes.Equal(s.target, acc) {
						fail("target-content", "bytes writer target after a later Flush is neither the bytes since the previous flush nor everything so far (len %d, since-last %d)", len(s.target), len(all))
						return
					}
					s.expected = acc
				}
			}
			for i, r := range s.regs {
				if r.pay != nil && !bytes.Equal(r.pay, r.want) {
					fail("payload-modified", "payload #%d passed to WriteBinary was modified", i)
					return
				}
			}
			s.regs = s.regs[:0]
			s.pending = 0
			s.flushes++
		}
		if what == "" && !s.failed {
			if got := s.w.WrittenLen(); got != s.pending {
				fail("writtenlen", "WrittenLen() = %d, want %d unflushed bytes", got, s.pending)
			}
		}
	})
	if pi != nil {
		what, sig = "", ""
		fail("panic", "panic: %s at %s", pi.Msg, pi.Frame)
		return
	}
	if !check && what == "" {
		return
	}
	// regions stay intact until Flush: what the harness stored is still there
	for i, r := range s.regs {
		if r.b != nil && r.filled && !bytes.Equal(r.b, r.want) {
			fail("region-changed", "region #%d (%d bytes), filled earlier and not yet flushed, changed at +%d (byte %#x)", i, len(r.b), firstDiff(r.b, r.want), r.b[firstDiff(r.b, r.want)])
			break
		}
		if r.pay != nil && !bytes.Equal(r.pay, r.want) {
			fail("payload-modified", "payload #%d passed to WriteBinary was modified", i)
			break
		}
	}
	if s.initArr != nil {
		n := s.cfg.InitLen
		if !bytes.Equal(s.initArr[:n], s.initSnp[:n]) {
			fail("caller-memory-modified", "the initial contents of the caller's slice were modified at index %d", firstDiff(s.initArr[:n], s.initSnp[:n]))
		}
	}
	if s.cfg.CoTenant != 0 {
		mcache.VerifAuditCoTenant()
	}
	if a := mcache.VerifTakeAudit(); len(a) > 0 {
		fail("pool-audit:"+auditClass(a[0]), "buffer pool audit: %s", strings.Join(a, "; "))
	}
	return
}

func (s *writerSys) layout() string {
	var b strings.Builder
	for _, r := range s.regs {
		k := "M"
		if r.pay != nil {
			k = "W"
		}
		fmt.Fprintf(&b, "%s%d ", k, len(r.want))
	}
	return strings.TrimSpace(b.String())
}

func (s *writerSys) histString(h []int) []string {
	r := make([]string, len(h))
	for i, o := range h {
		r[i] = s.ops[o].String()
	}
	return r
}
