// c20arch: C20's conversions on ANOTHER word size.  Built by bin/check with GOARCH=386 (only package unsafex and the
// standard library are imported: the rest of the repository does not build for 32-bit targets) and run when the kernel
// executes 32-bit binaries.  The same exhaustive small-scope enumeration as the main check's core: every length of an
// alphabet of lengths, nil and empty, strings that are substrings of a larger one (canary bytes behind them), results
// appended to.  Prints one line per failure ("FAIL <signature> <what>") and exits 1, or "ok <cases>".
package main

import (
	"fmt"
	"os"
	"unsafe"

	"github.com/cloudwego/gopkg/unsafex"
)

var failures int

func fail(sig, format string, a ...interface{}) {
	failures++
	if failures <= 8 {
		fmt.Printf("FAIL %s %s\n", sig, fmt.Sprintf(format, a...))
	}
}

func content(n, salt int) []byte {
	b := make([]byte, n)
	for i := range b {
		b[i] = byte((i*7 + salt*31 + i/251) % 251)
	}
	return b
}

func main() {
	lens := []int{}
	for n := 0; n <= 70; n++ {
		lens = append(lens, n)
	}
	lens = append(lens, 255, 256, 257, 4095, 4096, 4097, 65535, 65536, 65537, 1<<20 + 1)
	cases := 0
	for _, n := range lens {
		for _, off := range []int{0, 1, 3} {
			cases++
			// the string lives inside a larger array: 8 canary bytes follow it
			backing := append(append(content(off, 1), content(n, 2)...), 0xC1, 0xC2, 0xC3, 0xC4, 0xC5, 0xC6, 0xC7, 0xC8)
			whole := string(backing) // (a copy: strings are immutable; the canaries are part of this copy)
			s := whole[off : off+n]
			var guardBefore, guardAfter [4]uintptr // locals around the result: a conversion writing past a header hits them
			for i := range guardBefore {
				guardBefore[i], guardAfter[i] = 0x5a5a5a5a, 0x5a5a5a5a
			}
			b := unsafex.StringToBinary(s)
			if guardBefore != [4]uintptr{0x5a5a5a5a, 0x5a5a5a5a, 0x5a5a5a5a, 0x5a5a5a5a} || guardAfter != guardBefore {
				fail("C20|arch|stack-overwritten", "StringToBinary of a %d-byte string overwrote memory next to its result", n)
			}
			if len(b) != n {
				fail("C20|arch|length", "StringToBinary: len = %d, want %d", len(b), n)
				continue
			}
			if cap(b) != len(b) {
				fail("C20|arch|spare-capacity", "StringToBinary of a %d-byte string: cap = %d, want %d (appending could write into the string's memory, or the slice is unusable)", n, cap(b), len(b))
				continue
			}
			if string(b) != s {
				fail("C20|arch|content", "StringToBinary of a %d-byte string (offset %d) has other content", n, off)
			}
			if n > 0 && unsafe.Pointer(&b[0]) != unsafe.Pointer(unsafe.StringData(s)) {
				fail("C20|arch|not-shared", "StringToBinary of a %d-byte string copied the bytes", n)
			}
			b2 := append(b, 0xEE, 0xEE)
			if whole[off+n] != 0xC1 || whole[off+n+1] != 0xC2 || len(b2) != n+2 || string(b2[:n]) != s {
				fail("C20|arch|append-writes-into-string", "appending to the result of StringToBinary(%d bytes) changed the memory behind the string", n)
			}
			// the other direction
			src := append(content(off, 3), content(n, 4)...)
			bs := src[off : off+n : off+n]
			str := unsafex.BinaryToString(bs)
			if len(str) != n || str != string(content(n, 4)) {
				fail("C20|arch|content", "BinaryToString of %d bytes: len %d / other content", n, len(str))
				continue
			}
			if n > 0 {
				if unsafe.Pointer(unsafe.StringData(str)) != unsafe.Pointer(&bs[0]) {
					fail("C20|arch|not-shared", "BinaryToString of %d bytes copied the bytes", n)
				}
				bs[n-1] ^= 0xff
				if str[n-1] != bs[n-1] {
					fail("C20|arch|not-shared", "BinaryToString of %d bytes does not follow its argument", n)
				}
			}
		}
	}
	// nil and empty
	cases += 4
	if b := unsafex.StringToBinary(""); len(b) != 0 || cap(b) != 0 {
		fail("C20|arch|empty", "StringToBinary(\"\"): len %d cap %d", len(b), cap(b))
	}
	if s := unsafex.BinaryToString(nil); s != "" {
		fail("C20|arch|empty", "BinaryToString(nil) = %q", s)
	}
	if s := unsafex.BinaryToString([]byte{}); s != "" {
		fail("C20|arch|empty", "BinaryToString(empty) = %q", s)
	}
	if s := unsafex.BinaryToString(make([]byte, 0, 16)); s != "" {
		fail("C20|arch|empty", "BinaryToString(empty with capacity) = %q", s)
	}
	if failures > 0 {
		os.Exit(1)
	}
	fmt.Printf("ok %d cases, word size %d\n", cases, unsafe.Sizeof(uintptr(0)))
}
