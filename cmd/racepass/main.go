// racepass: the free-running complement of C14's controlled scheduler.
// Built WITHOUT the overlay and WITH -race: real sync.Pool, real mcache, real span allocator.
// 16 goroutines run create/use/release cycles of every pooled type with self-checking payloads,
// 16 more query shared read-only maps.  It reports only data races (the race detector makes the
// process exit with status 66) and self-check failures (status 1).  This pass is sampling and is
// declared as such: it exists because a cooperative scheduler's hand-offs are happens-before edges
// that hide unsynchronised accesses from the detector.
package main

import (
	"bytes"
	"context"
	"encoding/binary"
	"fmt"
	"io"
	"os"
	"errors"
	"strconv"
	"strings"
	"sync"
	"sync/atomic"

	"github.com/cloudwego/gopkg/bufiox"
	"github.com/cloudwego/gopkg/container/strmap"
	"github.com/cloudwego/gopkg/protocol/thrift"
	"github.com/cloudwego/gopkg/protocol/thrift/apache"
	"github.com/cloudwego/gopkg/protocol/thrift/base"
	"github.com/cloudwego/gopkg/protocol/thrift/unknownfields"
	"github.com/cloudwego/gopkg/protocol/ttheader"
)

type chunkReader struct {
	d     []byte
	chunk int
}

func (r *chunkReader) Read(p []byte) (int, error) {
	if len(r.d) == 0 {
		return 0, io.EOF
	}
	n := len(p)
	if n > r.chunk {
		n = r.chunk
	}
	if n > len(r.d) {
		n = len(r.d)
	}
	copy(p, r.d[:n])
	r.d = r.d[n:]
	return n, nil
}

func stamped(stamp, n, salt int) []byte {
	b := make([]byte, n)
	for i := range b {
		b[i] = byte(stamp<<4 | (i+salt)%13)
	}
	return b
}

var failures int32

func fail(format string, a ...interface{}) {
	if atomic.AddInt32(&failures, 1) <= 5 {
		fmt.Printf("SELF-CHECK FAILED: "+format+"\n", a...)
	}
}

func encStr(b []byte, s []byte) []byte {
	var l [4]byte
	binary.BigEndian.PutUint32(l[:], uint32(len(s)))
	return append(append(b, l[:]...), s...)
}

var sharedStrInfo = map[string]string{ttheader.GDPRToken: "shared-token", "who": "everybody"}
var sharedIntInfo = map[uint16]string{3: "three"}

func cycle(g, it int) {
	stamp := g%15 + 1
	big := stamped(stamp, 5000+it%700, it)
	small := stamped(stamp, 20+it%9, it)
	// writer
	var sink bytes.Buffer
	w := bufiox.NewDefaultWriter(&sink)
	bw := thrift.NewBufferWriter(w)
	bw.WriteString(string(small))
	bw.WriteI32(int32(it))
	bw.WriteBinary(big)
	if err := w.Flush(); err != nil {
		fail("flush: %v", err)
	}
	bw.Recycle()
	want := encStr(nil, small)
	want = binary.BigEndian.AppendUint32(want, uint32(it))
	want = encStr(want, big)
	if !bytes.Equal(sink.Bytes(), want) {
		fail("goroutine %d: writer produced a foreign/corrupt stream", g)
	}
	// reader
	r := bufiox.NewDefaultReader(&chunkReader{d: want, chunk: 1 + it%5000})
	br := thrift.NewBufferReader(r)
	s, err := br.ReadString()
	i32, err2 := br.ReadI32()
	b, err3 := br.ReadBinary()
	if err != nil || err2 != nil || err3 != nil || s != string(small) || int(i32) != it || !bytes.Equal(b, big) {
		fail("goroutine %d: reader returned foreign/corrupt values", g)
	}
	br.Recycle()
	r.Release(nil)
	// shipped struct with a map, encoded and decoded (anything pooled or cached inside the generated codec is shared)
	bx := &base.Base{LogID: string(small), Caller: "c", Addr: "a", Extra: map[string]string{"k1-" + string(small[:4]): string(big[:4200]), "k2": string(small), "k3": "v"}}
	benc := make([]byte, bx.BLength())
	if n := bx.FastWrite(benc); n != len(benc) {
		fail("goroutine %d: Base.FastWrite wrote %d of %d bytes", g, n, len(benc))
	}
	var by base.Base
	if n, err := by.FastRead(benc); err != nil || n != len(benc) || by.LogID != bx.LogID || len(by.Extra) != 3 || by.Extra["k2"] != string(small) || by.Extra["k1-"+string(small[:4])] != string(big[:4200]) {
		fail("goroutine %d: Base round trip returned foreign/corrupt values", g)
	}
	// skip decoders
	val := append([]byte{11, 0, 1}, encStr(nil, big)...)
	val = append(val, 0)
	r2 := bufiox.NewDefaultReader(&chunkReader{d: val, chunk: 4096})
	d1 := thrift.NewSkipDecoder(r2)
	if x, err := d1.Next(thrift.STRUCT); err != nil || !bytes.Equal(x, val) {
		fail("goroutine %d: SkipDecoder returned foreign/corrupt bytes", g)
	}
	d1.Release()
	r2.Release(nil)
	d2 := thrift.NewBytesSkipDecoder(val)
	if x, err := d2.Next(thrift.STRUCT); err != nil || !bytes.Equal(x, val) {
		fail("goroutine %d: BytesSkipDecoder returned foreign/corrupt bytes", g)
	}
	d2.Release()
	d3 := thrift.NewReaderSkipDecoder(&chunkReader{d: val, chunk: 3000})
	if x, err := d3.Next(thrift.STRUCT); err != nil || !bytes.Equal(x, val) {
		fail("goroutine %d: ReaderSkipDecoder returned foreign/corrupt bytes", g)
	}
	d3.Release()
	// ttheader
	var hs bytes.Buffer
	hw := bufiox.NewDefaultWriter(&hs)
	if _, err := ttheader.Encode(context.Background(), ttheader.EncodeParam{SeqID: int32(it), StrInfo: map[string]string{"k": string(small)}, IntInfo: map[uint16]string{1: string(big[:4200])}}, hw); err != nil {
		fail("encode: %v", err)
	}
	hw.Flush()
	hr := bufiox.NewDefaultReader(&chunkReader{d: hs.Bytes(), chunk: 1000})
	p, err := ttheader.Decode(context.Background(), hr)
	if err != nil || p.SeqID != int32(it) || p.StrInfo["k"] != string(small) || p.IntInfo[1] != string(big[:4200]) {
		fail("goroutine %d: ttheader round trip returned foreign/corrupt values", g)
	}
	hr.Release(nil)
	// every goroutine encodes with the SAME parameter maps: Encode only reads them
	var gs bytes.Buffer
	gw := bufiox.NewDefaultWriter(&gs)
	if _, err := ttheader.Encode(context.Background(), ttheader.EncodeParam{SeqID: int32(it), StrInfo: sharedStrInfo, IntInfo: sharedIntInfo}, gw); err != nil {
		fail("encode with shared maps: %v", err)
	}
	gw.Flush()
	if gp, err := ttheader.DecodeFromBytes(context.Background(), gs.Bytes()); err != nil || gp.StrInfo[ttheader.GDPRToken] != "shared-token" || gp.StrInfo["who"] != "everybody" || gp.IntInfo[3] != "three" {
		fail("goroutine %d: frame encoded from shared parameter maps lacks entries", g)
	}
	// span allocator + fast codec
	in := encStr(nil, big[:300])
	str, _, _ := thrift.Binary.ReadString(in)
	bin, _, _ := thrift.Binary.ReadBinary(in)
	for i := range in {
		in[i] = 0xEE
	}
	if str != string(big[:300]) || !bytes.Equal(bin, big[:300]) {
		fail("goroutine %d: span-allocated value is foreign/corrupt", g)
	}
	// error paths (shared sentinel errors) and a bytes writer over a caller-owned buffer
	scratch := make([]byte, 0, 4096)
	tgt := scratch
	yw := bufiox.NewBytesWriter(&tgt)
	yw.WriteBinary(big)
	yw.Flush()
	copy(scratch[:4096], big)
	if !bytes.Equal(tgt, big) || !bytes.Equal(scratch[:4096], big[:4096]) {
		fail("goroutine %d: bytes writer target / caller scratch corrupted", g)
	}
	bs := &base.Base{LogID: string(small), Caller: "c", Addr: "a", Extra: map[string]string{"k": string(small)}}
	enc := thrift.FastMarshal(bs)
	var trunc base.Base
	if _, err := trunc.FastRead(enc[:len(enc)-3]); err == nil || len(err.Error()) > 300 {
		fail("goroutine %d: truncated input: %v", g, err)
	}
	var out base.Base
	if err := thrift.FastUnmarshal(enc, &out); err != nil || out.LogID != string(small) || out.Extra["k"] != string(small) {
		fail("goroutine %d: Base round trip is foreign/corrupt", g)
	}
}

// withUnknown is a generated-style struct that keeps the fields it does not know (distinct VALUES of one TYPE are used
// by different goroutines: anything the library memoises per type is shared).
type withUnknown struct {
	A              int32
	_unknownFields []byte
}

// everything below works on values owned by the calling goroutine; what the library builds lazily or memoises at
// package level on the way (default texts, per-type lookups, registries that are only read) is shared.  The FIRST calls
// happen concurrently: main performs none of them before the goroutines start.
func helpers(g, it int) {
	id := int32(1000 + g*131 + it)
	for _, e := range []error{thrift.NewApplicationException(id, ""), thrift.NewApplicationException(int32(it%11), ""), thrift.NewApplicationException(id, "m"),
		thrift.NewProtocolException(id, ""), thrift.NewTransportException(id, ""), thrift.NewProtocolExceptionWithErr(io.ErrUnexpectedEOF)} {
		t1 := e.Error()
		if t2 := fmt.Sprint(e); t1 != t2 {
			fail("goroutine %d: the text of an exception changes between two renderings", g)
		}
		p := thrift.PrependError("ctx: ", e)
		if !strings.HasPrefix(p.Error(), "ctx: ") {
			fail("goroutine %d: PrependError lost the prefix", g)
		}
		var pe *thrift.ProtocolException
		if errors.As(e, &pe) {
			_ = errors.Is(e, thrift.NewProtocolException(pe.TypeId(), pe.Msg())) // (what matches is C18's business)
			_ = errors.Is(e, io.ErrUnexpectedEOF)
		}
	}
	ae := thrift.NewApplicationException(id, "")
	enc := thrift.FastMarshal(ae)
	back := thrift.NewApplicationException(0, "x")
	if _, err := back.FastRead(enc); err != nil || back.TypeID() != id || back.Msg() != "" {
		fail("goroutine %d: exception round trip is foreign/corrupt", g)
	}
	// unknown fields kept by a struct value of the goroutine's own
	fields := []byte{8, 0, 9, 0, 0, 0, byte(g), 11, 0, 10, 0, 0, 0, 2, 'h', byte('a' + g%26), 0}
	wu := &withUnknown{A: int32(g), _unknownFields: fields[:len(fields)-1]}
	fs, err := unknownfields.GetUnknownFields(wu)
	if err != nil || len(fs) != 2 || fs[0].ID != 9 || fs[1].ID != 10 || fs[1].Value.(string) != "h"+string(rune('a'+g%26)) {
		fail("goroutine %d: GetUnknownFields returned foreign/corrupt fields (%v)", g, err)
		return
	}
	n, err := unknownfields.UnknownFieldsLength(fs)
	out := make([]byte, n)
	if m, err2 := unknownfields.WriteUnknownFields(out, fs); err != nil || err2 != nil || m != n || !bytes.Equal(out, fields[:len(fields)-1]) {
		fail("goroutine %d: unknown fields written back differ", g)
	}
	if _, err := unknownfields.GetUnknownFields(*wu); err != nil {
		fail("goroutine %d: GetUnknownFields on a struct value: %v", g, err)
	}
	// the apache bridge's registries are only read here (nothing is registered in this process)
	if apache.CheckTStruct(wu) == nil || apache.ThriftRead(nil, wu) == nil || apache.ThriftWrite(nil, wu) == nil {
		fail("goroutine %d: an unregistered apache callback returned nil", g)
	}
	var bb bytes.Buffer
	tr := apache.NewBufferTransport(&bb)
	tr.Write([]byte{byte(g), 2, 3})
	if tr.RemainingBytes() != 3 || bb.Len() != 3 || bb.Bytes()[0] != byte(g) {
		fail("goroutine %d: buffer transport shows foreign state", g)
	}
}

// firstCalls: the "first" mode.  Whatever the library builds lazily at package level is built by the FIRST call that
// needs it; a race on it exists only between that call and the others.  A fresh process is started for this mode
// (several times): 16 goroutines are released together and each makes its first calls in another order, with nothing
// before them that would synchronise the goroutines with each other.
func firstCalls(g int) {
	bodies := []func(){
		func() {
			wu := &withUnknown{A: int32(g), _unknownFields: []byte{8, 0, 9, 0, 0, 0, byte(g)}}
			if fs, err := unknownfields.GetUnknownFields(wu); err != nil || len(fs) != 1 {
				fail("goroutine %d: GetUnknownFields (first call): %v", g, err)
			}
		},
		func() {
			if thrift.NewApplicationException(int32(5000+g), "").Error() == "" {
				fail("goroutine %d: empty default text", g)
			}
		},
		func() {
			bx := &base.Base{LogID: "l", Caller: "c", Addr: "a", Extra: map[string]string{"k": "v"}}
			var by base.Base
			if _, err := by.FastRead(thrift.FastMarshal(bx)); err != nil || by.Extra["k"] != "v" {
				fail("goroutine %d: Base round trip (first call)", g)
			}
		},
		func() {
			b, err := ttheader.EncodeToBytes(context.Background(), ttheader.EncodeParam{SeqID: int32(g), StrInfo: map[string]string{"k": "v"}})
			if err != nil {
				fail("encode: %v", err)
				return
			}
			if p, err := ttheader.DecodeFromBytes(context.Background(), b); err != nil || p.SeqID != int32(g) {
				fail("goroutine %d: ttheader round trip (first call)", g)
			}
		},
		func() { helpers(g, 0) },
		func() { cycle(g, 0) },
	}
	for i := range bodies {
		bodies[(i+g)%len(bodies)]()
	}
}

func main() {
	if len(os.Args) > 1 && os.Args[1] == "first" {
		var start int32
		var wg sync.WaitGroup
		for g := 0; g < 16; g++ {
			wg.Add(1)
			go func(g int) {
				defer wg.Done()
				for atomic.LoadInt32(&start) == 0 {
				}
				firstCalls(g)
			}(g)
		}
		atomic.StoreInt32(&start, 1)
		wg.Wait()
		if failures > 0 {
			os.Exit(1)
		}
		fmt.Println("racepass first-calls ok")
		return
	}
	iters := 300
	if len(os.Args) > 1 {
		iters, _ = strconv.Atoi(os.Args[1])
	}
	thrift.SetSpanCache(true)
	kk := make([]string, 2000)
	vv := make([]int, 2000)
	vs := make([]string, 2000)
	for i := range kk {
		kk[i], vv[i], vs[i] = "key-"+strconv.Itoa(i), i, "val-"+strconv.Itoa(i)
	}
	sm := strmap.NewFromSlice(kk, vv)
	s2s := strmap.NewStr2StrFromSlice(kk, vs)
	small := strmap.NewFromSlice(kk[:12], vv[:12])
	var smallTexts [16]string // the first String() calls on this map happen concurrently
	var wg sync.WaitGroup
	for g := 0; g < 16; g++ {
		wg.Add(2)
		go func(g int) {
			defer wg.Done()
			for it := 0; it < iters; it++ {
				helpers(g, it)
				cycle(g, it)
			}
		}(g)
		go func(g int) {
			defer wg.Done()
			for it := 0; it < iters*20; it++ {
				i := (it*7 + g) % 2000
				if v, ok := sm.Get(kk[i]); !ok || v != i {
					fail("shared StrMap.Get wrong under concurrency")
				}
				if v, ok := s2s.Get(kk[i]); !ok || v != vs[i] {
					fail("shared Str2Str.Get wrong under concurrency")
				}
				if _, ok := sm.Get("absent-" + kk[i]); ok {
					fail("shared StrMap.Get found an absent key")
				}
				// every query of a loaded map is read-only: Len, Item and String too
				if k, v := sm.Item(i); sm.Len() != 2000 || v < 0 || v >= 2000 || k != kk[v] {
					fail("shared StrMap.Len/Item wrong under concurrency")
				}
				if it%64 == 0 {
					if t := small.String(); smallTexts[g] == "" {
						smallTexts[g] = t
					} else if t != smallTexts[g] || fmt.Sprint(small) != t {
						fail("shared StrMap.String changes under concurrency")
					}
				}
			}
		}(g)
	}
	wg.Wait()
	for g := range smallTexts {
		if smallTexts[g] != smallTexts[0] || len(smallTexts[g]) < 12*8 {
			fail("shared StrMap.String differs between goroutines")
		}
	}
	if failures > 0 {
		os.Exit(1)
	}
	fmt.Printf("racepass ok: 16 goroutines x %d cycles, 16 goroutines x %d map queries\n", iters, iters*20*3)
}
