// verifcheck: driver (parent) and worker for all checks.
//
//	verifcheck run <ID> --tier quick|thorough      parent: shards over worker processes, merges, writes evidence
//	verifcheck worker <ID> --tier T --shard i --of n --seed s --budget secs   (internal)
//	verifcheck replay <ID> <file>                  re-execute one recorded violation without the explorer
package main

import (
	"bytes"
	"crypto/sha1"
	"encoding/json"
	"flag"
	"fmt"
	"os"
	"os/exec"
	"path/filepath"
	"runtime"
	"runtime/debug"
	"sort"
	"strconv"
	"strings"
	"sync"
	"syscall"
	"time"

	"verif/checks"
	"verif/mc"
)

var verifDir = func() string {
	if d := os.Getenv("VERIF_DIR"); d != "" {
		return d
	}
	return "/verif"
}()

func main() {
	if len(os.Args) < 3 {
		fmt.Fprintln(os.Stderr, "usage: verifcheck run|worker|replay <ID> ...")
		os.Exit(2)
	}
	mode, id := os.Args[1], strings.ToUpper(os.Args[2])
	ck := checks.All[id]
	if ck == nil {
		fmt.Fprintf(os.Stderr, "unknown check %s\n", id)
		os.Exit(2)
	}
	fs := flag.NewFlagSet(mode, flag.ExitOnError)
	tier := fs.String("tier", envOr("VERIF_TIER", "quick"), "quick|thorough")
	shard := fs.Int("shard", 0, "")
	of := fs.Int("of", 1, "")
	seed := fs.Int64("seed", envInt("VERIF_SEED", 0), "")
	budget := fs.Float64("budget", 0, "seconds")
	switch mode {
	case "worker":
		fs.Parse(os.Args[3:])
		worker(ck, *tier, *shard, *of, *seed, time.Duration(*budget*float64(time.Second)))
	case "run":
		fs.Parse(os.Args[3:])
		os.Exit(run(ck, *tier, *seed))
	case "replay":
		if len(os.Args) < 4 {
			fmt.Fprintln(os.Stderr, "usage: verifcheck replay <ID> <file>")
			os.Exit(2)
		}
		os.Exit(replay(ck, os.Args[3], true))
	case "replay-quiet":
		os.Exit(replay(ck, os.Args[3], false))
	default:
		fmt.Fprintln(os.Stderr, "unknown mode", mode)
		os.Exit(2)
	}
}

func envOr(k, d string) string {
	if v := os.Getenv(k); v != "" {
		return v
	}
	return d
}

func envInt(k string, d int64) int64 {
	if v := os.Getenv(k); v != "" {
		if n, err := strconv.ParseInt(v, 10, 64); err == nil {
			return n
		}
	}
	return d
}

func limitMemory() {
	// the sandbox has no memory limit: make a runaway allocation fail in this worker only
	lim := uint64(envInt("VERIF_WORKER_AS_GB", 24)) << 30
	_ = syscall.Setrlimit(syscall.RLIMIT_AS, &syscall.Rlimit{Cur: lim, Max: lim})
	debug.SetMemoryLimit(int64(envInt("VERIF_WORKER_MEM_GB", 6)) << 30)
}

func worker(ck *checks.Check, tier string, shard, of int, seed int64, budget time.Duration) {
	limitMemory()
	debug.SetPanicOnFault(true)
	t0 := time.Now()
	c := mc.NewCtx(ck.ID, tier, shard, of, seed, budget)
	ck.Run(c)
	c.R.WallS = time.Since(t0).Seconds()
	enc := json.NewEncoder(os.Stdout)
	if err := enc.Encode(&c.R); err != nil {
		fmt.Fprintln(os.Stderr, "worker: encode:", err)
		os.Exit(3)
	}
}

type finding struct {
	Property  string `json:"property"`
	Status    string `json:"status"` // known | fixed
	Signature string `json:"signature"`
	What      string `json:"what"`
	Commit    string `json:"commit,omitempty"`
}

func loadFindings() []finding {
	var f struct {
		Findings []finding `json:"findings"`
	}
	b, err := os.ReadFile(filepath.Join(verifDir, "known_findings.json"))
	if err != nil {
		return nil
	}
	if err := json.Unmarshal(b, &f); err != nil {
		fmt.Fprintln(os.Stderr, "known_findings.json:", err)
		os.Exit(2)
	}
	return f.Findings
}

type replayFile struct {
	Property  string          `json:"property"`
	Sub       string          `json:"sub"`
	Signature string          `json:"signature"`
	What      string          `json:"what"`
	Tier      string          `json:"tier"`
	Case      json.RawMessage `json:"case"`
}

func run(ck *checks.Check, tier string, seed int64) int {
	t0 := time.Now()
	n := ck.Shards
	if n == 0 {
		n = runtime.NumCPU()
		if n > 16 {
			n = 16
		}
	}
	budget := ck.Quick
	if tier == "thorough" {
		budget = ck.Thorough
	}
	if s := envInt("VERIF_BUDGET_S", 0); s > 0 {
		budget = time.Duration(s) * time.Second
	}
	results := make([]*mc.Result, n)
	crashes := make([]string, n)
	var wg sync.WaitGroup
	for i := 0; i < n; i++ {
		wg.Add(1)
		go func(i int) {
			defer wg.Done()
			cmd := exec.Command(os.Args[0], "worker", ck.ID, "--tier", tier, "--shard", strconv.Itoa(i), "--of", strconv.Itoa(n),
				"--seed", strconv.FormatInt(seed, 10), "--budget", fmt.Sprintf("%.0f", budget.Seconds()))
			procs := "2"
			if ck.Procs > 0 {
				procs = strconv.Itoa(ck.Procs)
			}
			cmd.Env = append(os.Environ(), "GOMAXPROCS="+envOr("VERIF_WORKER_PROCS", procs), "GOTRACEBACK=single")
			var out, errb bytes.Buffer
			cmd.Stdout, cmd.Stderr = &out, &errb
			if err := cmd.Start(); err != nil {
				crashes[i] = "cannot start worker: " + err.Error()
				return
			}
			done := make(chan error, 1)
			go func() { done <- cmd.Wait() }()
			var err error
			select {
			case err = <-done:
			case <-time.After(3*budget + 180*time.Second):
				cmd.Process.Kill()
				<-done
				crashes[i] = fmt.Sprintf("worker %d did not terminate within %v (killed)\n%s", i, 3*budget+180*time.Second, tail(errb.String(), 3000))
				return
			}
			var r mc.Result
			if err != nil || json.Unmarshal(lastLine(out.Bytes()), &r) != nil {
				crashes[i] = fmt.Sprintf("worker %d died: %v\n%s", i, err, tail(errb.String(), 6000))
				return
			}
			if errb.Len() > 0 && os.Getenv("VERIF_VERBOSE") != "" {
				os.Stderr.Write(errb.Bytes())
			}
			results[i] = &r
		}(i)
	}
	wg.Wait()

	// merge
	tot := mc.Result{Counters: map[string]int64{}}
	var maxWall float64
	sampleSeen := map[string]bool{}
	for _, r := range results {
		if r == nil {
			continue
		}
		tot.Evaluations += r.Evaluations
		tot.Distinct += r.Distinct
		tot.States += r.States
		tot.Transitions += r.Transitions
		tot.Traces += r.Traces
		for k, v := range r.Counters {
			tot.Counters[k] += v
		}
		for _, s := range r.Samples {
			js, _ := json.Marshal(s)
			if len(tot.Samples) < 12 && !sampleSeen[string(js)] {
				sampleSeen[string(js)] = true
				tot.Samples = append(tot.Samples, s)
			}
		}
		tot.Violations = append(tot.Violations, r.Violations...)
		tot.Incomplete = append(tot.Incomplete, r.Incomplete...)
		tot.Completed = append(tot.Completed, r.Completed...)
		if r.WallS > maxWall {
			maxWall = r.WallS
		}
	}
	tot.Completed = uniq(tot.Completed)
	tot.Incomplete = uniq(tot.Incomplete)
	// a sub-space is complete only if no shard reported it incomplete
	inc := map[string]bool{}
	for _, s := range tot.Incomplete {
		inc[s] = true
	}
	var comp []string
	for _, s := range tot.Completed {
		if !inc[s] {
			comp = append(comp, s)
		}
	}
	tot.Completed = comp

	extra := map[string]interface{}{}
	if ck.Post != nil {
		ex, vs := ck.Post(tier)
		for k, v := range ex {
			extra[k] = v
		}
		tot.Violations = append(tot.Violations, vs...)
	}

	outDir := verifDir // seed/mutant runs redirect evidence and replay files away from the committed ones
	if d := os.Getenv("VERIF_OUT_DIR"); d != "" {
		outDir = d
	}
	os.MkdirAll(filepath.Join(outDir, "replay"), 0o755)
	os.MkdirAll(filepath.Join(outDir, "evidence"), 0o755)
	for i, cr := range crashes {
		if cr == "" {
			continue
		}
		raw, _ := json.Marshal(map[string]interface{}{"shard": i, "of": n, "tier": tier, "seed": seed, "log": cr})
		sig := ck.ID + "|worker-crash|" + crashClass(cr)
		tot.Violations = append(tot.Violations, mc.Violation{Property: ck.ID, Sub: "worker-crash", Sig: sig,
			What: "a worker process died or hung while executing the code under test (fatal runtime error, stack exhaustion, out of memory or non-termination): " + firstLines(cr, 6), Case: raw})
	}

	// classify violations: known finding / new
	findings := loadFindings()
	known := map[string]finding{}
	for _, f := range findings {
		if f.Status == "known" && f.Property == ck.ID {
			known[f.Signature] = f
		}
	}
	sort.SliceStable(tot.Violations, func(i, j int) bool { return tot.Violations[i].Sig < tot.Violations[j].Sig })
	bySig := map[string][]mc.Violation{}
	var sigs []string
	for _, v := range tot.Violations {
		if _, ok := bySig[v.Sig]; !ok {
			sigs = append(sigs, v.Sig)
		}
		bySig[v.Sig] = append(bySig[v.Sig], v)
	}
	exit := 0
	var unconfirmed, strictFail []string
	var knownPrinted []string
	newViol := 0
	for _, sig := range sigs {
		vs := bySig[sig]
		// smallest case first
		nd := func(v mc.Violation) bool { return ck.UnownedNondet != nil && ck.UnownedNondet(v.Sub, v.Case) }
		sort.SliceStable(vs, func(i, j int) bool {
			if a, b := nd(vs[i]), nd(vs[j]); a != b {
				return !a // prefer cases whose replay is fully owned by the harness
			}
			return len(vs[i].Case) < len(vs[j].Case)
		})
		v := vs[0]
		if f, ok := known[sig]; ok {
			fmt.Printf("KNOWN-FINDING: property=%s %s [%s]\n", ck.ID, f.What, sig)
			knownPrinted = append(knownPrinted, sig)
			continue
		}
		h := sha1.Sum([]byte(sig))
		path := filepath.Join(outDir, "replay", fmt.Sprintf("%s-%x.json", strings.ToLower(ck.ID), h[:5]))
		rf := replayFile{Property: ck.ID, Sub: v.Sub, Signature: v.Sig, What: v.What, Tier: tier, Case: v.Case}
		if err := mc.WriteJSON(path, rf); err != nil {
			fmt.Fprintln(os.Stderr, "cannot write replay file:", err)
			return 2
		}
		// determinism gate: the recorded case must fail again, with the same signature, on every re-execution
		if v.Sub != "worker-crash" && v.Sub != "post" && ck.Replay != nil {
			need, tries := 3, 3
			if ck.UnownedNondet != nil && ck.UnownedNondet(v.Sub, v.Case) {
				need, tries = 1, 8 // map iteration order inside the code under test is not owned by the harness
			}
			okCount := 0
			var lastOut []byte
			crashed := false
			for k := 0; k < tries && okCount < need; k++ {
				cmd := exec.Command(os.Args[0], "replay-quiet", ck.ID, path)
				cmd.Env = append(os.Environ(), "GOTRACEBACK=single")
				out, err := cmd.CombinedOutput()
				lastOut = out
				if ee, ok := err.(*exec.ExitError); ok && ee.ExitCode() > 2 {
					crashed = true // the replay itself crashes the process: reproducible by construction
					break
				}
				if err != nil && sameFinding(ck, sig, string(out)) {
					okCount++
				} else if need == tries {
					break
				}
			}
			if !crashed && okCount < need {
				if need == 1 {
					// order-dependent inside the code under test (Go map iteration): not reproduced in 8 tries; keep it as a note
					// and let the other violations of this run decide
					unconfirmed = append(unconfirmed, fmt.Sprintf("%s (%s)", sig, path))
					fmt.Printf("NOTE: property=%s a violation with signature %s was observed once but did not reproduce in %d re-executions (it depends on Go map iteration order inside the code under test); replay file %s\n", ck.ID, sig, tries, path)
					continue
				}
				// not reproducible from a fresh process.  If another violation of this run IS confirmed, this one may be a
				// consequence of process-global state the first one corrupted; it is reported as a note.  If nothing is
				// confirmed the run ends with HARNESS-ERROR (exit 2, no verdict) below.
				unconfirmed = append(unconfirmed, fmt.Sprintf("%s (%s)", sig, path))
				strictFail = append(strictFail, fmt.Sprintf("recorded case did not reproduce (%d of %d needed re-executions failed with signature %s, file %s)\n%s", okCount, need, sig, path, tail(string(lastOut), 800)))
				continue
			}
		}
		fmt.Printf("VIOLATION property=%s replay=%s\n", ck.ID, path)
		fmt.Printf("  signature: %s\n  what: %s\n", v.Sig, v.What)
		newViol++
		exit = 1
	}

	for _, m := range strictFail {
		if exit == 1 {
			fmt.Printf("NOTE: property=%s %s\n", ck.ID, firstLines(m, 1))
		} else {
			fmt.Printf("HARNESS-ERROR: property=%s %s: harness nondeterministic; no verdict\n", ck.ID, m)
		}
	}
	if exit == 0 && len(unconfirmed) > 0 {
		fmt.Printf("HARNESS-ERROR: property=%s %d violation(s) were observed but none could be reproduced from its replay file; no verdict\n", ck.ID, len(unconfirmed))
		return 2
	}
	// evidence
	exhaustive := len(tot.Incomplete) == 0 && allNil(crashes)
	cov := map[string]interface{}{
		"evaluations":         tot.Evaluations,
		"distinct_nontrivial": tot.Distinct,
		"rule":                ck.Rule,
		"samples":             tot.Samples,
		"exhaustive":          exhaustive,
		"completed_subspaces": tot.Completed,
		"incomplete":          tot.Incomplete,
		"counters":            tot.Counters,
		"shards":              n,
		"known_findings":      knownPrinted,
	}
	if ck.Level == "model_checking" {
		cov["states"] = tot.States
		cov["transitions"] = tot.Transitions
		cov["traces_validated_against_impl"] = tot.Traces
	}
	for k, v := range extra {
		cov[k] = v
	}
	if len(tot.Samples) == 0 {
		cov["samples"] = []interface{}{"(no sample recorded)"}
	}
	ev := map[string]interface{}{
		"property_id": ck.ID,
		"tier":        tier,
		"seed":        seed,
		"level":       ck.Level,
		"coverage":    cov,
		"assumptions": ck.Assumptions,
		"wall_s":      time.Since(t0).Seconds(),
		"violations":  newViol,
	}
	if err := mc.WriteJSON(filepath.Join(outDir, "evidence", ck.ID+".json"), ev); err != nil {
		fmt.Fprintln(os.Stderr, "cannot write evidence:", err)
		return 2
	}
	fmt.Printf("%s tier=%s shards=%d evaluations=%d distinct=%d states=%d transitions=%d violations=%d known=%d exhaustive=%v wall=%.1fs\n",
		ck.ID, tier, n, tot.Evaluations, tot.Distinct, tot.States, tot.Transitions, newViol, len(knownPrinted), exhaustive, time.Since(t0).Seconds())
	if os.Getenv("VERIF_VERBOSE") != "" {
		for _, k := range mc.SortedKeys(tot.Counters) {
			fmt.Printf("  %-50s %d\n", k, tot.Counters[k])
		}
		for _, s := range tot.Incomplete {
			fmt.Println("  incomplete:", s)
		}
	}
	return exit
}

func replay(ck *checks.Check, path string, verbose bool) int {
	b, err := os.ReadFile(path)
	if err != nil {
		fmt.Fprintln(os.Stderr, err)
		return 2
	}
	var rf replayFile
	if err := json.Unmarshal(b, &rf); err != nil {
		fmt.Fprintln(os.Stderr, "replay file:", err)
		return 2
	}
	if ck.Replay == nil || rf.Sub == "worker-crash" || rf.Sub == "post" {
		fmt.Println("this record has no in-process replayer (worker crash / post pass); see the log inside the file")
		return 2
	}
	limitMemory()
	debug.SetPanicOnFault(true)
	tier := rf.Tier
	if tier == "" {
		tier = "quick"
	}
	c := mc.NewCtx(ck.ID, tier, 0, 1, 0, time.Hour)
	c.Replay = true
	ck.Replay(c, rf.Sub, rf.Case)
	if len(c.R.Violations) == 0 {
		fmt.Printf("replay: property=%s case no longer violates (recorded signature %s)\n", ck.ID, rf.Signature)
		return 0
	}
	for _, v := range c.R.Violations {
		fmt.Printf("SIG=%s\n", v.Sig)
		if verbose {
			fmt.Printf("VIOLATION property=%s replay=%s\n  what: %s\n", ck.ID, path, v.What)
		}
	}
	return 1
}

func sameFinding(ck *checks.Check, recorded, out string) bool {
	for _, l := range strings.Split(out, "\n") {
		if !strings.HasPrefix(l, "SIG=") {
			continue
		}
		got := strings.TrimPrefix(l, "SIG=")
		if got == recorded || (ck.SameFinding != nil && ck.SameFinding(recorded, got)) {
			return true
		}
	}
	return false
}

func lastLine(b []byte) []byte {
	b = bytes.TrimRight(b, "\n")
	if i := bytes.LastIndexByte(b, '\n'); i >= 0 {
		return b[i+1:]
	}
	return b
}

func tail(s string, n int) string {
	if len(s) > n {
		return "…" + s[len(s)-n:]
	}
	return s
}

func firstLines(s string, n int) string {
	ls := strings.Split(s, "\n")
	if len(ls) > n {
		ls = ls[:n]
	}
	return strings.Join(ls, " | ")
}

func crashClass(s string) string {
	for _, l := range strings.Split(s, "\n") {
		if strings.HasPrefix(l, "fatal error:") || strings.HasPrefix(l, "panic:") || strings.HasPrefix(l, "runtime:") {
			if len(l) > 60 {
				l = l[:60]
			}
			return l
		}
	}
	if strings.Contains(s, "did not terminate") {
		return "non-termination"
	}
	return "unknown"
}

func uniq(s []string) []string {
	sort.Strings(s)
	var r []string
	for i, x := range s {
		if i == 0 || x != s[i-1] {
			r = append(r, x)
		}
	}
	return r
}

func allNil(s []string) bool {
	for _, x := range s {
		if x != "" {
			return false
		}
	}
	return true
}
