package gen

import (
	"hash/adler32"
	"hash/crc32"
	"hash/fnv"
	"sync"
)

// CollisionPairs returns, for each of several widely used 32-bit string hashes, one pair of DIFFERENT strings of EQUAL
// length with the SAME hash (found by a birthday search over short lower-case strings when first called; the search is
// deterministic).  A cache, interning table or de-duplication keyed by such a hash that compares too little on a hit
// confuses the two.  Values, not sizes: no enumeration of lengths or structures ever produces such a pair by chance.
func CollisionPairs() [][2]string {
	collideOnce.Do(func() {
		hashes := []func(string) uint32{
			func(s string) uint32 { h := fnv.New32a(); h.Write([]byte(s)); return h.Sum32() },
			func(s string) uint32 { h := fnv.New32(); h.Write([]byte(s)); return h.Sum32() },
			func(s string) uint32 { return crc32.ChecksumIEEE([]byte(s)) },
			func(s string) uint32 { return crc32.Checksum([]byte(s), crc32.MakeTable(crc32.Castagnoli)) },
			func(s string) uint32 { return adler32.Checksum([]byte(s)) },
			func(s string) uint32 { // Java / "times 31"
				var h uint32
				for i := 0; i < len(s); i++ {
					h = h*31 + uint32(s[i])
				}
				return h
			},
			func(s string) uint32 { // djb2
				h := uint32(5381)
				for i := 0; i < len(s); i++ {
					h = h*33 + uint32(s[i])
				}
				return h
			},
			func(s string) uint32 { // djb2 xor variant
				h := uint32(5381)
				for i := 0; i < len(s); i++ {
					h = h*33 ^ uint32(s[i])
				}
				return h
			},
			func(s string) uint32 { // sdbm
				var h uint32
				for i := 0; i < len(s); i++ {
					h = uint32(s[i]) + (h << 6) + (h << 16) - h
				}
				return h
			},
			func(s string) uint32 { // sum of bytes
				var h uint32
				for i := 0; i < len(s); i++ {
					h += uint32(s[i])
				}
				return h
			},
			func(s string) uint32 { // xor of bytes
				var h uint32
				for i := 0; i < len(s); i++ {
					h ^= uint32(s[i])
				}
				return h
			},
		}
		const n = 1200000
		word := func(i int) string {
			b := []byte("aaaaaaaa")
			for p := len(b) - 1; p >= 0 && i > 0; p-- {
				b[p] = byte('a' + i%26)
				i /= 26
			}
			return string(b)
		}
		for _, h := range hashes {
			seen := make(map[uint32]int, n)
			for i := 0; i < n; i++ {
				w := word(i*7919 + 13) // spread over the space
				k := h(w)
				if j, ok := seen[k]; ok {
					if o := word(j*7919 + 13); o != w {
						collidePairs = append(collidePairs, [2]string{o, w})
						break
					}
				}
				seen[k] = i
			}
		}
		// well-known pairs: Java's times-31 hash; order-insensitive hashes; FNV-1a 32
		collidePairs = append(collidePairs, [2]string{"Aa", "BB"}, [2]string{"ab", "ba"}, [2]string{"declinate", "macallums"})
	})
	return collidePairs
}

var (
	collideOnce  sync.Once
	collidePairs [][2]string
)
