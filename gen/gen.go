// Package gen holds the bounded-exhaustive generators: typed value trees (DESIGN 4.5),
// grammar-alphabet byte strings (4.6), truncations and structural perturbations (4.7).
package gen

import (
	"fmt"

	"verif/ref"
)

func nonUTF8() []byte { return []byte{0xff, 0x00, 0xc3, 0x28, 0x80} }

func bigString(n int) []byte {
	b := make([]byte, n)
	for i := range b {
		b[i] = byte((i*7 + i/251) % 251)
	}
	return b
}

// Scalars returns the representative values of a scalar type (level 0).
func Scalars(t int8, big bool) []ref.Value {
	mk := func(xs ...uint64) []ref.Value {
		r := make([]ref.Value, len(xs))
		for i, x := range xs {
			r[i] = ref.Value{T: t, I: x}
		}
		return r
	}
	switch t {
	case ref.BOOL:
		return mk(0, 1)
	case ref.BYTE:
		return mk(0, 0xff, 0x7f)
	case ref.I16:
		return mk(0, 0x0102, 0x8000, 0xffff)
	case ref.I32:
		return mk(0, 0x01020304, 0x80000000, 0xffffffff)
	case ref.I64:
		return mk(0, 0x0102030405060708, 0x8000000000000000, 0xffffffffffffffff)
	case ref.DOUBLE:
		return mk(0, 0x400921fb54442d18, 0x7ff8000000000001, 0xfff0000000000000)
	case ref.STRING:
		r := []ref.Value{{T: t, S: []byte{}}, {T: t, S: []byte("a")}, {T: t, S: []byte{0xff}}, {T: t, S: nonUTF8()}}
		if big {
			r = append(r, ref.Value{T: t, S: bigString(4097)}, ref.Value{T: t, S: bigString(9000)})
		}
		return r
	}
	return nil
}

// Small returns one small representative of any type; i varies the content so elements are distinct.
func Small(t int8, i int) ref.Value {
	switch t {
	case ref.BOOL:
		return ref.Value{T: t, I: uint64(i & 1)}
	case ref.BYTE:
		return ref.Value{T: t, I: uint64(0x11 + i)}
	case ref.I16:
		return ref.Value{T: t, I: uint64(0x0102 + i)}
	case ref.I32:
		return ref.Value{T: t, I: uint64(0x01020304 + i)}
	case ref.I64:
		return ref.Value{T: t, I: uint64(0x0102030405060708 + i)}
	case ref.DOUBLE:
		return ref.Value{T: t, I: 0x400921fb54442d18 + uint64(i)}
	case ref.STRING:
		if i%4 == 2 { // one byte that is not ASCII: a decoder converting a byte to a string as a rune would change it
			return ref.Value{T: t, S: []byte{0xe9}}
		}
		return ref.Value{T: t, S: []byte(fmt.Sprintf("s%d", i))[:1+i%2]}
	case ref.STRUCT:
		return ref.Value{T: t, F: []ref.Field{{ID: int16(1 + i), V: ref.Value{T: ref.I32, I: uint64(7 + i)}}}}
	case ref.MAP:
		return ref.Value{T: t, Key: ref.BYTE, Elem: ref.STRING, L: []ref.Value{{T: ref.BYTE, I: uint64(i)}, {T: ref.STRING, S: []byte("v")}}}
	case ref.SET:
		return ref.Value{T: t, Elem: ref.I16, L: []ref.Value{{T: ref.I16, I: uint64(i)}}}
	case ref.LIST:
		return ref.Value{T: t, Elem: ref.STRING, L: []ref.Value{{T: ref.STRING, S: []byte("x")}, {T: ref.STRING, S: []byte{}}}}
	}
	panic("gen.Small: bad type")
}

// Tree is a generated value with a label.
type Tree struct {
	Name string
	V    ref.Value
}

var fieldIDs = []int16{1, -1, 0x7fff, 0x0100}

// Trees enumerates the typed value trees of DESIGN 4.5.  big adds the >4 KiB strings;
// maxChain is the deepest nesting chain (70 for the full set).
func Trees(big bool, maxChain int) []Tree {
	var out []Tree
	add := func(name string, v ref.Value) { out = append(out, Tree{name, v}) }
	// level 0
	for _, t := range ref.T11 {
		for i, v := range Scalars(t, big) {
			add(fmt.Sprintf("scalar/%d/%d", t, i), v)
		}
	}
	// level 1: list and set of every element type x n in {0,1,2,3}
	for _, k := range []int8{ref.LIST, ref.SET} {
		for _, et := range ref.T11 {
			for n := 0; n <= 3; n++ {
				v := ref.Value{T: k, Elem: et}
				for i := 0; i < n; i++ {
					v.L = append(v.L, Small(et, i))
				}
				add(fmt.Sprintf("%d<%d>x%d", k, et, n), v)
			}
		}
	}
	// maps of every (key,value) type pair x n in {0,1,2}
	for _, kt := range ref.T11 {
		for _, vt := range ref.T11 {
			for n := 0; n <= 2; n++ {
				v := ref.Value{T: ref.MAP, Key: kt, Elem: vt}
				for i := 0; i < n; i++ {
					v.L = append(v.L, Small(kt, i), Small(vt, i+1))
				}
				add(fmt.Sprintf("map<%d,%d>x%d", kt, vt, n), v)
			}
		}
	}
	// containers of EMPTY structs: every element occupies a single byte, the smallest encoding any value has (kills
	// "an element needs at least N bytes" shortcuts)
	es := ref.Value{T: ref.STRUCT}
	for _, n := range []int{1, 2, 5, 40} {
		l := ref.Value{T: ref.LIST, Elem: ref.STRUCT}
		m := ref.Value{T: ref.MAP, Key: ref.STRUCT, Elem: ref.STRUCT}
		mi := ref.Value{T: ref.MAP, Key: ref.BYTE, Elem: ref.STRUCT}
		for i := 0; i < n; i++ {
			l.L = append(l.L, es)
			m.L = append(m.L, es, es)
			mi.L = append(mi.L, ref.Value{T: ref.BYTE, I: uint64(i)}, es)
		}
		st := l
		st.T = ref.SET
		add(fmt.Sprintf("tiny/list<struct{}>x%d", n), l)
		add(fmt.Sprintf("tiny/set<struct{}>x%d", n), st)
		add(fmt.Sprintf("tiny/map<struct{},struct{}>x%d", n), m)
		add(fmt.Sprintf("tiny/map<byte,struct{}>x%d", n), mi)
		add(fmt.Sprintf("tiny/struct{list<struct{}>x%d}", n), ref.Value{T: ref.STRUCT, F: []ref.Field{{ID: 1, V: l}}})
	}
	// structs: none, one field of every type, all ordered pairs of field types
	add("struct{}", ref.Value{T: ref.STRUCT})
	for i, t := range ref.T11 {
		add(fmt.Sprintf("struct{%d}", t), ref.Value{T: ref.STRUCT, F: []ref.Field{{ID: fieldIDs[i%4], V: Small(t, 0)}}})
	}
	for i, a := range ref.T11 {
		for j, b := range ref.T11 {
			add(fmt.Sprintf("struct{%d,%d}", a, b), ref.Value{T: ref.STRUCT, F: []ref.Field{{ID: fieldIDs[i%4], V: Small(a, 0)}, {ID: fieldIDs[(j+1)%4], V: Small(b, 1)}}})
		}
	}
	// level 2: "many" variants over level-1 representatives
	for _, et := range []int8{ref.STRUCT, ref.MAP, ref.SET, ref.LIST, ref.STRING} {
		v := ref.Value{T: ref.LIST, Elem: et}
		for i := 0; i < 5; i++ {
			inner := Small(et, i)
			v.L = append(v.L, inner)
		}
		add(fmt.Sprintf("list<%d>x5", et), v)
		m := ref.Value{T: ref.MAP, Key: ref.STRING, Elem: et}
		for i := 0; i < 4; i++ {
			m.L = append(m.L, ref.Value{T: ref.STRING, S: []byte(fmt.Sprintf("key%d", i))}, Small(et, i))
		}
		add(fmt.Sprintf("map<str,%d>x4", et), m)
		add(fmt.Sprintf("struct{list<%d>,map}", et), ref.Value{T: ref.STRUCT, F: []ref.Field{{ID: 1, V: v}, {ID: 2, V: m}, {ID: 3, V: Small(ref.I64, 0)}}})
	}
	// sizes that need more than one byte of the 4-byte size field
	{
		l := ref.Value{T: ref.LIST, Elem: ref.BYTE}
		for i := 0; i < 0x0102; i++ {
			l.L = append(l.L, ref.Value{T: ref.BYTE, I: uint64(i)})
		}
		add("list<byte>x258", l)
		m := ref.Value{T: ref.MAP, Key: ref.I16, Elem: ref.BOOL}
		for i := 0; i < 0x0201; i++ {
			m.L = append(m.L, ref.Value{T: ref.I16, I: uint64(i)}, ref.Value{T: ref.BOOL, I: uint64(i & 1)})
		}
		add("map<i16,bool>x513", m)
		add("string/0x0103", ref.Value{T: ref.STRING, S: bigString(0x0103)})
		st := ref.Value{T: ref.SET, Elem: ref.STRING}
		for i := 0; i < 0x0101; i++ {
			st.L = append(st.L, ref.Value{T: ref.STRING, S: []byte(fmt.Sprintf("%d", i))})
		}
		add("set<string>x257", st)
	}
	// wide values: many siblings at one level (a per-sibling cost must not eat the recursion budget)
	for _, n := range []int{63, 64, 65, 70, 200} {
		w := ref.Value{T: ref.STRUCT}
		l := ref.Value{T: ref.LIST, Elem: ref.STRUCT}
		m := ref.Value{T: ref.MAP, Key: ref.STRING, Elem: ref.LIST}
		st := ref.Value{T: ref.SET, Elem: ref.MAP}
		for i := 0; i < n; i++ {
			w.F = append(w.F, ref.Field{ID: int16(i + 1), V: Small(ref.T11[i%11], i)})
			l.L = append(l.L, Small(ref.STRUCT, i))
			m.L = append(m.L, ref.Value{T: ref.STRING, S: []byte(fmt.Sprintf("k%d", i))}, Small(ref.LIST, i))
			st.L = append(st.L, Small(ref.MAP, i))
		}
		add(fmt.Sprintf("wide/struct/%d", n), w)
		add(fmt.Sprintf("wide/list<struct>/%d", n), l)
		add(fmt.Sprintf("wide/map<string,list>/%d", n), m)
		add(fmt.Sprintf("wide/set<map>/%d", n), st)
		add(fmt.Sprintf("wide/struct{struct}/%d", n), ref.Value{T: ref.STRUCT, F: []ref.Field{{ID: 1, V: w}, {ID: 2, V: l}}})
	}
	if big {
		b1, b2 := ref.Value{T: ref.STRING, S: bigString(4097)}, ref.Value{T: ref.STRING, S: bigString(9000)}
		add("list<string>[small,4097,small]", ref.Value{T: ref.LIST, Elem: ref.STRING, L: []ref.Value{Small(ref.STRING, 0), b1, Small(ref.STRING, 1)}})
		add("struct{1:9000,2:i32}", ref.Value{T: ref.STRUCT, F: []ref.Field{{ID: 1, V: b2}, {ID: 2, V: Small(ref.I32, 0)}}})
		add("map<string,string>{4097:9000}", ref.Value{T: ref.MAP, Key: ref.STRING, Elem: ref.STRING, L: []ref.Value{b1, b2}})
		// declared sizes with bit 15 set (0x8001, 0xC350) and above 0x18000
		add("string/0x8001", ref.Value{T: ref.STRING, S: bigString(0x8001)})
		add("string/0x18001", ref.Value{T: ref.STRING, S: bigString(0x18001)})
		lb := ref.Value{T: ref.LIST, Elem: ref.BYTE}
		for i := 0; i < 0xC350; i++ {
			lb.L = append(lb.L, ref.Value{T: ref.BYTE, I: uint64(i & 0x7f)})
		}
		add("list<byte>x50000", lb)
		add("struct{1:string/0x8001}", ref.Value{T: ref.STRUCT, F: []ref.Field{{ID: 1, V: ref.Value{T: ref.STRING, S: bigString(0x8001)}}}})
		// fast-path containers larger than the reader's buffer
		l := ref.Value{T: ref.LIST, Elem: ref.I64}
		for i := 0; i < 1200; i++ {
			l.L = append(l.L, ref.Value{T: ref.I64, I: uint64(i)})
		}
		add("list<i64>x1200", l)
		m := ref.Value{T: ref.MAP, Key: ref.I32, Elem: ref.I16}
		for i := 0; i < 900; i++ {
			m.L = append(m.L, ref.Value{T: ref.I32, I: uint64(i)}, ref.Value{T: ref.I16, I: uint64(i)})
		}
		add("map<i32,i16>x900", m)
	}
	// chains
	for _, kind := range []string{"list", "set", "mapkey", "mapval", "struct"} {
		for _, leaf := range []int8{ref.BYTE, ref.STRING} {
			for d := 1; d <= maxChain; d++ {
				add(fmt.Sprintf("chain/%s/%d/leaf%d", kind, d, leaf), Chain(kind, d, leaf))
			}
		}
	}
	return out
}

// Chain nests one container kind d levels deep around a leaf.
func Chain(kind string, d int, leaf int8) ref.Value {
	v := Small(leaf, 0)
	for i := 0; i < d; i++ {
		switch kind {
		case "list":
			v = ref.Value{T: ref.LIST, Elem: v.T, L: []ref.Value{v}}
		case "set":
			v = ref.Value{T: ref.SET, Elem: v.T, L: []ref.Value{v}}
		case "mapkey":
			v = ref.Value{T: ref.MAP, Key: v.T, Elem: ref.BYTE, L: []ref.Value{v, {T: ref.BYTE, I: 1}}}
		case "mapval":
			v = ref.Value{T: ref.MAP, Key: ref.BYTE, Elem: v.T, L: []ref.Value{{T: ref.BYTE, I: 1}, v}}
		case "struct":
			v = ref.Value{T: ref.STRUCT, F: []ref.Field{{ID: int16(i + 1), V: v}}}
		}
	}
	return v
}

// GrammarAlphabet is A_g of DESIGN 4.6.
var GrammarAlphabet = []byte{0x00, 0x01, 0x02, 0x03, 0x08, 0x0b, 0x0c, 0x0d, 0x0f, 0x7f, 0x80, 0xff}

// Strings calls f with every string over alphabet of length lo..hi (f must not retain the slice).
// Returns false if f asked to stop.
func Strings(alphabet []byte, lo, hi int, f func([]byte) bool) bool {
	buf := make([]byte, hi)
	idx := make([]int, hi)
	for n := lo; n <= hi; n++ {
		for i := 0; i < n; i++ {
			idx[i] = 0
			buf[i] = alphabet[0]
		}
		for {
			if !f(buf[:n]) {
				return false
			}
			i := n - 1
			for ; i >= 0; i-- {
				idx[i]++
				if idx[i] < len(alphabet) {
					buf[i] = alphabet[idx[i]]
					break
				}
				idx[i] = 0
				buf[i] = alphabet[0]
			}
			if i < 0 {
				break
			}
		}
	}
	return true
}

// NthString returns the k-th string (0-based) of length n over alphabet, in the order used by Strings.
func NthString(alphabet []byte, n int, k int64, buf []byte) []byte {
	buf = buf[:n]
	a := int64(len(alphabet))
	for i := n - 1; i >= 0; i-- {
		buf[i] = alphabet[k%a]
		k /= a
	}
	return buf
}

// ---- structural marks (for perturbations) ----

type Mark struct {
	Off  int
	Kind string // "type" (1 byte), "size" (4 bytes), "id" (2 bytes)
}

// Marks returns the encoding of v together with the positions of its structural bytes.
func Marks(v *ref.Value) ([]byte, []Mark) {
	var ms []Mark
	b := marks(nil, v, &ms)
	return b, ms
}

func marks(b []byte, v *ref.Value, ms *[]Mark) []byte {
	switch v.T {
	case ref.STRING:
		*ms = append(*ms, Mark{len(b), "size"})
		return ref.Encode(b, v)
	case ref.LIST, ref.SET:
		*ms = append(*ms, Mark{len(b), "type"}, Mark{len(b) + 1, "size"})
		hdr := ref.Value{T: v.T, Elem: v.Elem}
		b = ref.Encode(b, &hdr)
		// patch the size
		n := len(v.L)
		b[len(b)-4], b[len(b)-3], b[len(b)-2], b[len(b)-1] = byte(n>>24), byte(n>>16), byte(n>>8), byte(n)
		for i := range v.L {
			b = marks(b, &v.L[i], ms)
		}
		return b
	case ref.MAP:
		*ms = append(*ms, Mark{len(b), "type"}, Mark{len(b) + 1, "type"}, Mark{len(b) + 2, "size"})
		hdr := ref.Value{T: v.T, Key: v.Key, Elem: v.Elem}
		b = ref.Encode(b, &hdr)
		n := len(v.L) / 2
		b[len(b)-4], b[len(b)-3], b[len(b)-2], b[len(b)-1] = byte(n>>24), byte(n>>16), byte(n>>8), byte(n)
		for i := range v.L {
			b = marks(b, &v.L[i], ms)
		}
		return b
	case ref.STRUCT:
		for i := range v.F {
			*ms = append(*ms, Mark{len(b), "type"}, Mark{len(b) + 1, "id"})
			b = append(b, byte(v.F[i].V.T), byte(uint16(v.F[i].ID)>>8), byte(v.F[i].ID))
			b = marks(b, &v.F[i].V, ms)
		}
		*ms = append(*ms, Mark{len(b), "type"})
		return append(b, 0)
	}
	return ref.Encode(b, v)
}

// SizeValues are the replacement values for 4-byte size fields (plus actual-1, actual+1 added by the caller).
var SizeValues = []uint32{0, 1, 2, 0x7f, 0x80, 0xff, 0x100, 0xffff, 0x10000, 0x7fffffff, 0x80000000, 0xffffffff}

// IDValues are the replacement values for 2-byte field ids.
var IDValues = []uint16{0, 1, 0xffff, 0x7fff, 0x8000}

// Perturb calls f with every single-point structural perturbation of enc (f must not retain the slice).
func Perturb(enc []byte, ms []Mark, allTypeBytes bool, f func(b []byte, desc string) bool) bool {
	buf := make([]byte, len(enc))
	for _, m := range ms {
		switch m.Kind {
		case "type":
			if allTypeBytes {
				for x := 0; x < 256; x++ {
					if byte(x) == enc[m.Off] {
						continue
					}
					copy(buf, enc)
					buf[m.Off] = byte(x)
					if !f(buf, fmt.Sprintf("type@%d=%#x", m.Off, x)) {
						return false
					}
				}
			} else {
				for _, x := range []byte{0x00, 0x01, 0x02, 0x05, 0x0b, 0x0c, 0x0d, 0x0f, 0x10, 0x7f, 0x80, 0xff} {
					if x == enc[m.Off] {
						continue
					}
					copy(buf, enc)
					buf[m.Off] = x
					if !f(buf, fmt.Sprintf("type@%d=%#x", m.Off, x)) {
						return false
					}
				}
			}
		case "size":
			cur := uint32(enc[m.Off])<<24 | uint32(enc[m.Off+1])<<16 | uint32(enc[m.Off+2])<<8 | uint32(enc[m.Off+3])
			vals := append(append([]uint32{}, SizeValues...), cur-1, cur+1)
			for _, x := range vals {
				if x == cur {
					continue
				}
				copy(buf, enc)
				buf[m.Off], buf[m.Off+1], buf[m.Off+2], buf[m.Off+3] = byte(x>>24), byte(x>>16), byte(x>>8), byte(x)
				if !f(buf, fmt.Sprintf("size@%d=%#x", m.Off, x)) {
					return false
				}
			}
		case "id":
			for _, x := range IDValues {
				copy(buf, enc)
				buf[m.Off], buf[m.Off+1] = byte(x>>8), byte(x)
				if !f(buf, fmt.Sprintf("id@%d=%#x", m.Off, x)) {
					return false
				}
			}
		}
	}
	return true
}
