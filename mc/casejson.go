package mc

import (
	"encoding/hex"
	"encoding/json"
	"reflect"
	"strings"
	"unicode/utf8"
)

// Case records are JSON, and encoding/json replaces every byte of a string that is not valid UTF-8 by U+FFFD: a case
// holding such a string would be replayed with a DIFFERENT input and the replay gate would reject a real violation.
// MarshalCase/UnmarshalCase are lossless: a string that is not valid UTF-8 (or that happens to begin with the marker)
// is written as marker + hex of its bytes and turned back after decoding.  Map keys are treated alike.

const caseHexMarker = "\x01hex:"

func escStr(s string) string {
	if utf8.ValidString(s) && !strings.HasPrefix(s, caseHexMarker) {
		return s
	}
	return caseHexMarker + hex.EncodeToString([]byte(s))
}

func unescStr(s string) string {
	if !strings.HasPrefix(s, caseHexMarker) {
		return s
	}
	b, err := hex.DecodeString(s[len(caseHexMarker):])
	if err != nil {
		return s
	}
	return string(b)
}

// MarshalCase is json.Marshal with lossless strings.
func MarshalCase(v interface{}) ([]byte, error) {
	if v == nil {
		return json.Marshal(v)
	}
	return json.Marshal(mapStrings(reflect.ValueOf(v), escStr).Interface())
}

// UnmarshalCase is json.Unmarshal with lossless strings (p must be a pointer).
func UnmarshalCase(raw []byte, p interface{}) error {
	if err := json.Unmarshal(raw, p); err != nil {
		return err
	}
	v := reflect.ValueOf(p)
	if v.Kind() == reflect.Ptr && !v.IsNil() {
		v.Elem().Set(mapStrings(v.Elem(), unescStr))
	}
	return nil
}

// mapStrings returns a deep copy of v in which every string (including map keys) went through f.  Unexported struct
// fields keep their value (encoding/json does not look at them); json.RawMessage and other byte slices are shared.
func mapStrings(v reflect.Value, f func(string) string) reflect.Value {
	switch v.Kind() {
	case reflect.String:
		out := reflect.New(v.Type()).Elem()
		out.SetString(f(v.String()))
		return out
	case reflect.Struct:
		out := reflect.New(v.Type()).Elem()
		out.Set(v)
		for i := 0; i < v.NumField(); i++ {
			if out.Field(i).CanSet() {
				out.Field(i).Set(mapStrings(v.Field(i), f))
			}
		}
		return out
	case reflect.Slice:
		if v.IsNil() || v.Type().Elem().Kind() == reflect.Uint8 {
			return v
		}
		out := reflect.MakeSlice(v.Type(), v.Len(), v.Len())
		for i := 0; i < v.Len(); i++ {
			out.Index(i).Set(mapStrings(v.Index(i), f))
		}
		return out
	case reflect.Array:
		out := reflect.New(v.Type()).Elem()
		for i := 0; i < v.Len(); i++ {
			out.Index(i).Set(mapStrings(v.Index(i), f))
		}
		return out
	case reflect.Map:
		if v.IsNil() {
			return v
		}
		out := reflect.MakeMapWithSize(v.Type(), v.Len())
		it := v.MapRange()
		for it.Next() {
			out.SetMapIndex(mapStrings(it.Key(), f), mapStrings(it.Value(), f))
		}
		return out
	case reflect.Ptr:
		if v.IsNil() {
			return v
		}
		out := reflect.New(v.Type().Elem())
		out.Elem().Set(mapStrings(v.Elem(), f))
		return out
	case reflect.Interface:
		if v.IsNil() {
			return v
		}
		out := reflect.New(v.Type()).Elem()
		out.Set(mapStrings(v.Elem(), f))
		return out
	}
	return v
}
