package mc

import "fmt"

// ---- E1: deviation-bounded choice-sequence explorer (stateless) ----
//
// A body is a deterministic function of a Chooser.  Every environment answer is a
// call to Choose(n): option 0 is the default policy answer, any other option is a
// deviation of cost 1.  Explore enumerates every choice sequence whose total cost
// is <= bound (iterative context bounding, generalised from preemptions to
// "departures from the default environment answer").

type point struct {
	n      int
	choice int
}

type Chooser struct {
	prefix []int
	trace  []point
	diverg bool
}

// Choose returns the option for the next choice point (n options, n >= 1).
func (ch *Chooser) Choose(n int) int {
	i := len(ch.trace)
	c := 0
	if i < len(ch.prefix) {
		c = ch.prefix[i]
		if c >= n {
			ch.diverg = true // nondeterminism leak: recorded option no longer exists
			c = 0
		}
	}
	ch.trace = append(ch.trace, point{n, c})
	return c
}

// Choices returns the choices taken so far (for replay files).
func (ch *Chooser) Choices() []int {
	r := make([]int, len(ch.trace))
	for i, p := range ch.trace {
		r[i] = p.choice
	}
	return r
}

// NewReplayChooser replays a recorded choice list and takes option 0 afterwards.
func NewReplayChooser(choices []int) *Chooser { return &Chooser{prefix: choices} }

type ExploreStats struct {
	Executions int64
	MaxPoints  int
	Diverged   int64
	Capped     bool
}

// Explore runs body for every choice sequence with at most `bound` deviations.
// maxExec caps the number of executions (0 = no cap); stop lets the caller abort (deadline).
func Explore(bound int, maxExec int64, stop func() bool, body func(ch *Chooser)) ExploreStats {
	var st ExploreStats
	var rec func(prefix []int, cost int)
	rec = func(prefix []int, cost int) {
		if st.Capped {
			return
		}
		if (maxExec > 0 && st.Executions >= maxExec) || (stop != nil && st.Executions%64 == 0 && stop()) {
			st.Capped = true
			return
		}
		ch := &Chooser{prefix: prefix}
		body(ch)
		st.Executions++
		if ch.diverg {
			st.Diverged++
			panic(fmt.Sprintf("mc.Explore: harness nondeterministic: replaying prefix %v met fewer options than recorded", prefix))
		}
		if len(ch.trace) > st.MaxPoints {
			st.MaxPoints = len(ch.trace)
		}
		if cost >= bound {
			return
		}
		tr := ch.trace
		for i := len(prefix); i < len(tr); i++ {
			for alt := 1; alt < tr[i].n; alt++ {
				np := make([]int, i+1)
				for j := 0; j < i; j++ {
					np[j] = tr[j].choice
				}
				np[i] = alt
				rec(np, cost+1)
			}
		}
	}
	rec(nil, 0)
	return st
}

// ---- E2: explicit-state breadth-first search over operation histories of real objects ----
//
// Real Go objects cannot be cloned, so a state is represented by the shortest
// history that reaches it; a successor is computed by replaying that history on a
// fresh instance plus one more operation.  States are de-duplicated by a canonical
// key supplied by the system (built from private fields through overlay dump files).

type System interface {
	// Reset builds a fresh instance (and fresh environment).
	Reset()
	// NumOps is the size of the operation alphabet.
	NumOps() int
	// Apply executes operation op on the real object and on the reference model,
	// compares them and returns a non-empty description if they disagree.
	// check=false is used while replaying a prefix that is already known to be fine.
	Apply(op int, check bool) (violation string, sig string)
	// Key is the canonical state key.
	Key() string
	// Enabled lets the system prune operations that make no sense in the current state.
	Enabled(op int) bool
}

type BFSStats struct {
	States      int64
	Transitions int64
	Depth       int // completed depth
	Capped      bool
}

// BFS explores all histories up to maxDepth; report is called for the first violation of each transition.
func BFS(sys System, maxDepth int, maxStates int64, stop func() bool, report func(hist []int, op int, what, sig string)) BFSStats {
	var st BFSStats
	sys.Reset()
	seen := map[string]struct{}{sys.Key(): {}}
	st.States = 1
	frontier := [][]int{nil}
	for d := 0; d < maxDepth && len(frontier) > 0; d++ {
		var next [][]int
		for _, h := range frontier {
			if stop != nil && stop() {
				st.Capped = true
				return st
			}
			for op := 0; op < sys.NumOps(); op++ {
				sys.Reset()
				for _, o := range h {
					sys.Apply(o, false)
				}
				if !sys.Enabled(op) {
					continue
				}
				what, sig := sys.Apply(op, true)
				st.Transitions++
				if what != "" {
					report(h, op, what, sig)
					continue // do not expand beyond a violating transition
				}
				k := sys.Key()
				if _, ok := seen[k]; !ok {
					if maxStates > 0 && st.States >= maxStates {
						st.Capped = true
						continue
					}
					seen[k] = struct{}{}
					st.States++
					nh := make([]int, len(h)+1)
					copy(nh, h)
					nh[len(h)] = op
					next = append(next, nh)
				}
			}
		}
		frontier = next
		if !st.Capped {
			st.Depth = d + 1
		}
	}
	return st
}
