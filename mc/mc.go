// Package mc is the core of the hand-written bounded model checker used by all checks:
// worker context (counting, distinct-case hashing, violations, panic guard, sharding),
// the deviation-bounded choice-sequence explorer (E1), the explicit-state BFS over
// operation histories of real objects (E2) and the cooperative scheduler (E3).
package mc

import (
	"encoding/json"
	"fmt"
	"hash/fnv"
	"os"
	"runtime"
	"sort"
	"strings"
	"time"
)

// Violation is one property violation with everything needed to replay it.
type Violation struct {
	Property string          `json:"property"`
	Sub      string          `json:"sub"`       // sub-check (selects the replayer)
	Sig      string          `json:"signature"` // stable: call site + failure class
	What     string          `json:"what"`
	Case     json.RawMessage `json:"case"`
}

// Result is what one worker (one shard) reports.
type Result struct {
	Evaluations int64            `json:"evaluations"`
	Distinct    int64            `json:"distinct"`
	States      int64            `json:"states"`
	Transitions int64            `json:"transitions"`
	Traces      int64            `json:"traces"`
	Counters    map[string]int64 `json:"counters"`
	Samples     []interface{}    `json:"samples"`
	Violations  []Violation      `json:"violations"`
	Incomplete  []string         `json:"incomplete"` // sub-spaces cut by the deadline / a cap
	Completed   []string         `json:"completed"`  // sub-spaces fully enumerated, with their bounds
	WallS       float64          `json:"wall_s"`
}

// Ctx is the worker-side context handed to a check.
type Ctx struct {
	Property string
	Tier     string
	Shard    int
	NShards  int
	Seed     int64
	Replay   bool

	R        Result
	deadline time.Time
	seen     map[uint64]struct{}
	idx      int64
	sigSeen  map[string]int
	sampleN  map[string]int
}

func NewCtx(prop, tier string, shard, n int, seed int64, budget time.Duration) *Ctx {
	c := &Ctx{Property: prop, Tier: tier, Shard: shard, NShards: n, Seed: seed}
	c.R.Counters = map[string]int64{}
	c.seen = map[uint64]struct{}{}
	c.sigSeen = map[string]int{}
	c.sampleN = map[string]int{}
	c.deadline = time.Now().Add(budget)
	return c
}

func (c *Ctx) Thorough() bool { return c.Tier == "thorough" }

// Mine partitions a stream of work items over the shards: call once per item.
func (c *Ctx) Mine() bool {
	i := c.idx
	c.idx++
	if c.NShards <= 1 {
		return true
	}
	return int((i+c.Seed)%int64(c.NShards)) == c.Shard
}

// Span splits [0,n) into NShards contiguous ranges and returns this shard's.
func (c *Ctx) Span(n int64) (lo, hi int64) {
	if c.NShards <= 1 {
		return 0, n
	}
	per := (n + int64(c.NShards) - 1) / int64(c.NShards)
	lo = per * int64(c.Shard)
	hi = lo + per
	if lo > n {
		lo = n
	}
	if hi > n {
		hi = n
	}
	return
}

func (c *Ctx) Expired() bool { return time.Now().After(c.deadline) }

func (c *Ctx) Eval(n int64)               { c.R.Evaluations += n }
func (c *Ctx) Count(name string, n int64) { c.R.Counters[name] += n }

// Distinct records a non-trivial case by key; only new keys are counted.
func (c *Ctx) Distinct(parts ...interface{}) {
	h := fnv.New64a()
	for _, p := range parts {
		switch v := p.(type) {
		case string:
			h.Write([]byte(v))
		case []byte:
			h.Write(v)
		default:
			fmt.Fprint(h, v)
		}
		h.Write([]byte{0})
	}
	k := h.Sum64()
	if _, ok := c.seen[k]; !ok {
		if len(c.seen) < 4_000_000 {
			c.seen[k] = struct{}{}
		}
		c.R.Distinct++
	}
}

// DistinctN adds n cases known to be pairwise distinct by construction (whole-domain sweeps).
func (c *Ctx) DistinctN(n int64) { c.R.Distinct += n }

// Sample keeps the first few cases of each kind, written out.
func (c *Ctx) Sample(kind string, v interface{}) {
	if c.sampleN[kind] >= 2 || len(c.R.Samples) >= 24 {
		return
	}
	c.sampleN[kind]++
	c.R.Samples = append(c.R.Samples, map[string]interface{}{"kind": kind, "case": v})
}

func (c *Ctx) Done(space string)       { c.R.Completed = append(c.R.Completed, space) }
func (c *Ctx) Incomplete(space string) { c.R.Incomplete = append(c.R.Incomplete, space) }

// Violate records a violation (first few per signature are kept).
func (c *Ctx) Violate(sub, sig, what string, cas interface{}) {
	c.sigSeen[sig]++
	c.R.Counters["violations"]++
	if c.sigSeen[sig] > 2 || len(c.R.Violations) >= 64 {
		return
	}
	raw, err := MarshalCase(cas)
	if err != nil {
		raw, _ = json.Marshal(fmt.Sprintf("unmarshalable case: %v", err))
	}
	if len(what) > 1500 {
		what = what[:1500] + "…"
	}
	c.R.Violations = append(c.R.Violations, Violation{Property: c.Property, Sub: sub, Sig: sig, What: what, Case: raw})
}

// PanicInfo describes a recovered panic.
type PanicInfo struct {
	Value interface{}
	Msg   string
	Frame string // innermost frame inside the code under test
	Class string // message with digits normalised
}

// Try runs f and returns a description of the panic it raised, if any.
func Try(f func()) (pi *PanicInfo) {
	defer func() {
		if r := recover(); r != nil {
			pi = describePanic(r)
		}
	}()
	f()
	return nil
}

func describePanic(r interface{}) *PanicInfo {
	pi := &PanicInfo{Value: r}
	switch v := r.(type) {
	case error:
		pi.Msg = v.Error()
	default:
		pi.Msg = fmt.Sprint(v)
	}
	pcs := make([]uintptr, 64)
	n := runtime.Callers(3, pcs)
	frames := runtime.CallersFrames(pcs[:n])
	for {
		fr, more := frames.Next()
		fn := fr.Function
		if strings.Contains(fn, "cloudwego/gopkg/") && !strings.Contains(fn, "verifshim") && !strings.Contains(fn, "Verif") {
			pi.Frame = fn[strings.Index(fn, "cloudwego/gopkg/")+len("cloudwego/gopkg/"):]
			break
		}
		if !more {
			break
		}
	}
	pi.Class = normDigits(pi.Msg)
	return pi
}

func normDigits(s string) string {
	var b strings.Builder
	prev := false
	for _, r := range s {
		if r >= '0' && r <= '9' {
			if !prev {
				b.WriteByte('N')
			}
			prev = true
			continue
		}
		prev = false
		b.WriteRune(r)
	}
	s = b.String()
	if len(s) > 80 {
		s = s[:80]
	}
	return s
}

// IsAllocCap tells whether a recovered panic is the allocator shim's cap sentinel.
func (pi *PanicInfo) IsAllocCap() bool {
	if pi == nil {
		return false
	}
	type capper interface{ Error() string }
	if e, ok := pi.Value.(capper); ok {
		return strings.HasPrefix(e.Error(), "verif: allocation cap exceeded")
	}
	return false
}

// Hex renders bytes compactly for case descriptions (long inputs are abbreviated in messages only).
func Hex(b []byte) string {
	if len(b) <= 48 {
		return fmt.Sprintf("%x", b)
	}
	return fmt.Sprintf("%x…(%d bytes)", b[:48], len(b))
}

func WriteJSON(path string, v interface{}) error {
	b, err := json.MarshalIndent(v, "", " ")
	if err != nil {
		return err
	}
	return os.WriteFile(path, append(b, '\n'), 0o644)
}

func SortedKeys(m map[string]int64) []string {
	ks := make([]string, 0, len(m))
	for k := range m {
		ks = append(ks, k)
	}
	sort.Strings(ks)
	return ks
}
