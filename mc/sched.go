package mc

import (
	"fmt"
	"strings"
)

// ---- E3: cooperative scheduler with preemption-bounded enumeration of interleavings ----
//
// Threads are goroutines that run one at a time.  Each calls Point() before every operation on
// state shared between instances (pool Get/Put, allocator Malloc/Free, the span try-lock, every
// Read/Write on a harness-owned source or sink).  At a point the scheduler decides who runs next:
// option 0 continues the running thread, the other options switch to another thread in ascending
// id order.  Switching away from a thread that could continue is a preemption (cost 1); choosing
// the next thread after one has finished is free.  RunSchedules enumerates every schedule whose
// preemption count is within the bound (iterative context bounding).

type schedThread struct {
	resume chan struct{}
	done   bool
	pnc    *PanicInfo
}

type schedPoint struct {
	n      int  // options
	choice int  // taken
	free   bool // alternatives cost nothing (running thread finished)
	label  string
}

type Sched struct {
	threads []*schedThread
	cur     int
	yield   chan struct{}
	prefix  []int
	trace   []schedPoint
	diverg  bool
	steps   int
	// Extra lets the environment add its own choice points (e.g. "the pool dropped its items"); cost 1 each.
}

// Point is a scheduling point; called by the running thread.
func (s *Sched) Point(label string) {
	s.steps++
	if s.steps > 100000 {
		panic("mc.Sched: execution exceeds 100000 scheduling points (livelock?)")
	}
	t := s.threads[s.cur]
	// enabled threads in canonical order: running thread first, then ascending ids
	opts := s.options(true)
	if len(opts) == 1 {
		return // nobody else to run
	}
	c := s.choose(len(opts), false, label)
	if opts[c] == s.cur {
		return
	}
	next := opts[c]
	s.cur = next
	s.threads[next].resume <- struct{}{}
	<-t.resume
}

// Choose is an environment choice point taken by the running thread (deviation cost 1 per non-zero option).
func (s *Sched) Choose(n int, label string) int {
	return s.choose(n, false, label)
}

func (s *Sched) options(runningFirst bool) []int {
	var o []int
	if runningFirst && !s.threads[s.cur].done {
		o = append(o, s.cur)
	}
	for i, t := range s.threads {
		if !t.done && !(runningFirst && i == s.cur) {
			o = append(o, i)
		}
	}
	return o
}

func (s *Sched) choose(n int, free bool, label string) int {
	i := len(s.trace)
	c := 0
	if i < len(s.prefix) {
		c = s.prefix[i]
		if c >= n {
			s.diverg = true
			c = 0
		}
	}
	s.trace = append(s.trace, schedPoint{n, c, free, label})
	return c
}

// Run executes the thread bodies once under the given choice prefix.
func (s *Sched) run(prefix []int, bodies []func()) {
	s.prefix, s.trace, s.diverg, s.steps = prefix, s.trace[:0], false, 0
	s.threads = s.threads[:0]
	s.yield = make(chan struct{})
	finished := make(chan int)
	for i := range bodies {
		t := &schedThread{resume: make(chan struct{})}
		s.threads = append(s.threads, t)
		go func(i int, body func()) {
			<-t.resume
			t.pnc = Try(body)
			t.done = true
			finished <- i
		}(i, bodies[i])
	}
	// start: choose the first thread (free choice)
	for {
		opts := s.options(false)
		if len(opts) == 0 {
			return
		}
		c := 0
		if len(opts) > 1 {
			c = s.choose(len(opts), true, "start/next")
		}
		s.cur = opts[c]
		s.threads[s.cur].resume <- struct{}{}
		// wait until some thread finishes; control is handed between threads directly at Points
		<-finished
	}
}

type SchedStats struct {
	Schedules int64
	MaxPoints int
	Capped    bool
}

// SchedResult is handed to the checker after every execution.
type SchedResult struct {
	Choices []int
	Panics  []*PanicInfo // per thread
	Trace   string
}

// RunSchedules enumerates all schedules with at most `bound` preemptions.  setup runs before every
// execution and returns the thread bodies; check runs after it.
func RunSchedules(bound int, maxExec int64, stop func() bool, setup func(s *Sched) []func(), check func(r SchedResult)) SchedStats {
	return RunSchedulesSharded(bound, maxExec, stop, nil, true, setup, check)
}

// RunSchedulesSharded distributes the first-level subtrees (one per alternative at each point of the
// default schedule) over shards: mineTop is asked once per subtree; the default schedule itself is
// checked only when checkRoot is set.
func RunSchedulesSharded(bound int, maxExec int64, stop func() bool, mineTop func() bool, checkRoot bool, setup func(s *Sched) []func(), check func(r SchedResult)) SchedStats {
	var st SchedStats
	s := &Sched{}
	var rec func(prefix []int, cost int)
	rec = func(prefix []int, cost int) {
		if st.Capped {
			return
		}
		if (maxExec > 0 && st.Schedules >= maxExec) || (stop != nil && st.Schedules%32 == 0 && stop()) {
			st.Capped = true
			return
		}
		bodies := setup(s)
		s.run(prefix, bodies)
		root := len(prefix) == 0
		if !root || checkRoot {
			st.Schedules++
		}
		if s.diverg {
			panic(fmt.Sprintf("mc.RunSchedules: harness nondeterministic: prefix %v met fewer options than recorded", prefix))
		}
		tr := append([]schedPoint(nil), s.trace...)
		if len(tr) > st.MaxPoints {
			st.MaxPoints = len(tr)
		}
		res := SchedResult{Choices: make([]int, len(tr))}
		for i, p := range tr {
			res.Choices[i] = p.choice
		}
		for _, t := range s.threads {
			res.Panics = append(res.Panics, t.pnc)
		}
		if !root || checkRoot {
			check(res)
		}
		for i := len(prefix); i < len(tr); i++ {
			c := cost
			if !tr[i].free {
				c++
			}
			if c > bound {
				continue
			}
			for alt := 1; alt < tr[i].n; alt++ {
				if root && mineTop != nil && !mineTop() {
					continue
				}
				np := make([]int, i+1)
				for j := 0; j < i; j++ {
					np[j] = tr[j].choice
				}
				np[i] = alt
				rec(np, c)
			}
		}
	}
	rec(nil, 0)
	return st
}

// ReplaySchedule runs one recorded schedule.
func ReplaySchedule(choices []int, setup func(s *Sched) []func()) SchedResult {
	s := &Sched{}
	bodies := setup(s)
	s.run(choices, bodies)
	res := SchedResult{Choices: make([]int, len(s.trace))}
	var b strings.Builder
	for i, p := range s.trace {
		res.Choices[i] = p.choice
		if p.choice != 0 {
			fmt.Fprintf(&b, "[%d:%s->opt%d] ", i, p.label, p.choice)
		}
	}
	res.Trace = b.String()
	for _, t := range s.threads {
		res.Panics = append(res.Panics, t.pnc)
	}
	return res
}
