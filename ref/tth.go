package ref

// TTHeader frame: reference builder and decoder written from the documented layout
//
//	0..4   LENGTH (total length of the frame - 4)
//	4..6   HEADER MAGIC 0x1000        6..8  FLAGS
//	8..12  SEQUENCE NUMBER
//	12..14 HEADER SIZE / 4
//	14..   PROTOCOL ID (u8) | NUM TRANSFORMS (u8) | TRANSFORM IDs | INFO sections | zero padding to a multiple of 4
//
// INFO sections: 0x01 string KV  (count u16, then klen u16, key, vlen u16, value)
//                0x10 int KV     (count u16, then key u16, vlen u16, value)
//                0x11 ACL token  (len u16, token)
//                0x00 padding
// All arithmetic is done in (at least) 32 bits.

const (
	TTHMeta      = 14
	TTHMaxHeader = 65536
	GDPRKey      = "gdpr-token" // suffix; the full key is supplied by the caller (metainfo transient prefix)
)

type TTHFrame struct {
	Flags    uint16
	Seq      int32
	Protocol uint8
	IntInfo  map[uint16]string
	StrInfo  map[string]string
	// decode results
	HeaderLen  int
	PayloadLen int
	TotalLen   uint32
}

func TTHSupportedProtocol(p uint8) bool {
	switch p {
	case 0x00, 0x03, 0x04, 0x10, 0x11:
		return true
	}
	return false
}

type TTHSection struct {
	Kind byte // 0x01, 0x10, 0x11, 0x00
	Str  [][2]string
	Int  []TTHIntKV
	ACL  string
}

type TTHIntKV struct {
	K uint16
	V string
}

// TTHBuildRaw builds a frame from explicit sections (any order, repeats, interleaved padding).
// total is the value of the LENGTH field; sizeField < 0 means "computed" (padded size / 4).
func TTHBuildRaw(flags uint16, seq int32, proto uint8, transforms []byte, secs []TTHSection, total uint32, sizeField int) []byte {
	info := []byte{proto, byte(len(transforms))}
	info = append(info, transforms...)
	for _, s := range secs {
		switch s.Kind {
		case 0x00:
			info = append(info, 0)
		case 0x01:
			info = be16(append(info, 0x01), uint16(len(s.Str)))
			for _, kv := range s.Str {
				info = append(be16(info, uint16(len(kv[0]))), kv[0]...)
				info = append(be16(info, uint16(len(kv[1]))), kv[1]...)
			}
		case 0x10:
			info = be16(append(info, 0x10), uint16(len(s.Int)))
			for _, kv := range s.Int {
				info = be16(info, kv.K)
				info = append(be16(info, uint16(len(kv.V))), kv.V...)
			}
		case 0x11:
			info = append(be16(append(info, 0x11), uint16(len(s.ACL))), s.ACL...)
		}
	}
	for len(info)%4 != 0 {
		info = append(info, 0)
	}
	sz := len(info) / 4
	if sizeField >= 0 {
		sz = sizeField
	}
	b := be32(nil, total)
	b = be16(be16(b, 0x1000), flags)
	b = be32(b, uint32(seq))
	b = be16(b, uint16(sz))
	return append(b, info...)
}

// TTHDecode is the reference decoder.  ok=false means the frame must be rejected.
func TTHDecode(b []byte, aclKey string) (f TTHFrame, ok bool, why string) {
	if len(b) < TTHMeta {
		return f, false, "fewer than 14 bytes"
	}
	f.TotalLen = u32(b)
	if b[4] != 0x10 || b[5] != 0x00 {
		return f, false, "magic mismatch"
	}
	f.Flags = uint16(b[6])<<8 | uint16(b[7])
	f.Seq = int32(u32(b[8:]))
	size := (uint32(b[12])<<8 | uint32(b[13])) * 4
	if size < 2 || size > TTHMaxHeader {
		return f, false, "declared header size outside 2..65536"
	}
	if uint32(len(b)-TTHMeta) < size {
		return f, false, "input shorter than the declared header"
	}
	info := b[TTHMeta : TTHMeta+int(size)]
	f.Protocol = info[0]
	if !TTHSupportedProtocol(info[0]) {
		return f, false, "unsupported protocol id"
	}
	nt := int(info[1])
	if len(info)-2 < nt {
		return f, false, "transform ids do not fit"
	}
	i := 2 + nt
	str16 := func() (string, bool) {
		if len(info)-i < 2 {
			return "", false
		}
		n := int(info[i])<<8 | int(info[i+1])
		i += 2
		if len(info)-i < n {
			return "", false
		}
		s := string(info[i : i+n])
		i += n
		return s, true
	}
	for i < len(info) {
		id := info[i]
		i++
		switch id {
		case 0x00:
		case 0x01:
			if len(info)-i < 2 {
				return f, false, "string KV section: count truncated"
			}
			n := int(info[i])<<8 | int(info[i+1])
			i += 2
			if f.StrInfo == nil {
				f.StrInfo = map[string]string{}
			}
			for k := 0; k < n; k++ {
				key, ok1 := str16()
				if !ok1 {
					return f, false, "string KV section incomplete"
				}
				val, ok2 := str16()
				if !ok2 {
					return f, false, "string KV section incomplete"
				}
				f.StrInfo[key] = val
			}
		case 0x10:
			if len(info)-i < 2 {
				return f, false, "int KV section: count truncated"
			}
			n := int(info[i])<<8 | int(info[i+1])
			i += 2
			if f.IntInfo == nil {
				f.IntInfo = map[uint16]string{}
			}
			for k := 0; k < n; k++ {
				if len(info)-i < 2 {
					return f, false, "int KV section incomplete"
				}
				key := uint16(info[i])<<8 | uint16(info[i+1])
				i += 2
				val, ok2 := str16()
				if !ok2 {
					return f, false, "int KV section incomplete"
				}
				f.IntInfo[key] = val
			}
		case 0x11:
			tok, ok1 := str16()
			if !ok1 {
				return f, false, "ACL token section incomplete"
			}
			if f.StrInfo == nil {
				f.StrInfo = map[string]string{}
			}
			f.StrInfo[aclKey] = tok
		default:
			return f, false, "unknown info id"
		}
	}
	f.HeaderLen = TTHMeta + int(size)
	f.PayloadLen = int(f.TotalLen) + 4 - f.HeaderLen
	return f, true, ""
}

// TTHLayout checks a frame produced by an encoder against the layout for the given parameters
// (order-insensitive for map entries).  Returns "" if it conforms.
func TTHLayout(b []byte, flags uint16, seq int32, proto uint8, intInfo map[uint16]string, strInfo map[string]string, aclKey string) string {
	if len(b) < TTHMeta {
		return "frame shorter than 14 bytes"
	}
	if b[4] != 0x10 || b[5] != 0x00 {
		return "magic is not 0x1000"
	}
	if got := uint16(b[6])<<8 | uint16(b[7]); got != flags {
		return "flags field differs"
	}
	if int32(u32(b[8:])) != seq {
		return "sequence id field differs"
	}
	size := (int(b[12])<<8 | int(b[13])) * 4
	if size != len(b)-TTHMeta {
		return "header size field * 4 != bytes written after the 14-byte meta block"
	}
	info := b[TTHMeta:]
	if len(info) < 2 || info[0] != proto {
		return "protocol id byte differs"
	}
	if info[1] != 0 {
		return "transform count is not zero"
	}
	// sections: ACL only in its own section, KV sections hold exactly the parameters, then 0..3 zero bytes
	i := 2
	gotStr, gotInt := map[string]string{}, map[uint16]string{}
	acl, hasACL := "", false
	str16 := func() (string, bool) {
		if len(info)-i < 2 {
			return "", false
		}
		n := int(info[i])<<8 | int(info[i+1])
		i += 2
		if len(info)-i < n {
			return "", false
		}
		s := string(info[i : i+n])
		i += n
		return s, true
	}
	pad := 0
	for i < len(info) {
		id := info[i]
		i++
		if id == 0 {
			pad++
			continue
		}
		if pad > 0 {
			return "data after padding"
		}
		switch id {
		case 0x01:
			if len(info)-i < 2 {
				return "string KV count truncated"
			}
			n := int(info[i])<<8 | int(info[i+1])
			i += 2
			for k := 0; k < n; k++ {
				key, ok1 := str16()
				val, ok2 := str16()
				if !ok1 || !ok2 {
					return "string KV entry incomplete"
				}
				if _, dup := gotStr[key]; dup {
					return "string key emitted twice"
				}
				gotStr[key] = val
			}
		case 0x10:
			if len(info)-i < 2 {
				return "int KV count truncated"
			}
			n := int(info[i])<<8 | int(info[i+1])
			i += 2
			for k := 0; k < n; k++ {
				if len(info)-i < 2 {
					return "int KV entry incomplete"
				}
				key := uint16(info[i])<<8 | uint16(info[i+1])
				i += 2
				val, ok2 := str16()
				if !ok2 {
					return "int KV entry incomplete"
				}
				if _, dup := gotInt[key]; dup {
					return "int key emitted twice"
				}
				gotInt[key] = val
			}
		case 0x11:
			tok, ok1 := str16()
			if !ok1 || hasACL {
				return "ACL section incomplete or repeated"
			}
			acl, hasACL = tok, true
		default:
			return "unknown info id in encoder output"
		}
	}
	if pad > 3 {
		return "more than 3 padding bytes"
	}
	if len(info)%4 != 0 {
		return "header info is not a multiple of 4"
	}
	wantACL, wantHas := strInfo[aclKey]
	if hasACL != wantHas || acl != wantACL {
		return "ACL token section does not match the gdpr-token parameter"
	}
	if _, bad := gotStr[aclKey]; bad {
		return "ACL token key also emitted as an ordinary string key"
	}
	n := len(strInfo)
	if wantHas {
		n--
	}
	if len(gotStr) != n {
		return "string KV section does not hold exactly the string parameters"
	}
	for k, v := range strInfo {
		if k == aclKey {
			continue
		}
		if g, ok := gotStr[k]; !ok || g != v {
			return "string KV section does not hold exactly the string parameters"
		}
	}
	if len(gotInt) != len(intInfo) {
		return "int KV section does not hold exactly the int parameters"
	}
	for k, v := range intInfo {
		if g, ok := gotInt[k]; !ok || g != v {
			return "int KV section does not hold exactly the int parameters"
		}
	}
	return ""
}
