// Package ref holds the reference models (oracles).  They are written from the format
// documentation, never from the code under test, and are deliberately boring.
package ref

// ---- Thrift Binary protocol: typed value tree, encoder, independent grammar skipper ----

const (
	STOP   = 0
	BOOL   = 2
	BYTE   = 3
	DOUBLE = 4
	I16    = 6
	I32    = 8
	I64    = 10
	STRING = 11
	STRUCT = 12
	MAP    = 13
	SET    = 14
	LIST   = 15
)

// T11 lists the eleven value types of the binary protocol.
var T11 = []int8{BOOL, BYTE, DOUBLE, I16, I32, I64, STRING, STRUCT, MAP, SET, LIST}

func ValidType(t int8) bool {
	switch t {
	case BOOL, BYTE, DOUBLE, I16, I32, I64, STRING, STRUCT, MAP, SET, LIST:
		return true
	}
	return false
}

func FixedSize(t int8) int {
	switch t {
	case BOOL, BYTE:
		return 1
	case I16:
		return 2
	case I32:
		return 4
	case I64, DOUBLE:
		return 8
	}
	return 0
}

func IsContainer(t int8) bool { return t == STRUCT || t == MAP || t == SET || t == LIST }

type Field struct {
	ID int16
	V  Value
}

// Value is a typed Thrift value.  Scalars live in I (DOUBLE: IEEE bits), strings in S,
// list/set elements in L, map entries alternate key,value in L, struct fields in F.
type Value struct {
	T    int8
	I    uint64
	S    []byte
	Elem int8 // list/set element type, map value type
	Key  int8 // map key type
	L    []Value
	F    []Field
}

func be16(b []byte, v uint16) []byte { return append(b, byte(v>>8), byte(v)) }
func be32(b []byte, v uint32) []byte { return append(b, byte(v>>24), byte(v>>16), byte(v>>8), byte(v)) }
func be64(b []byte, v uint64) []byte {
	return append(b, byte(v>>56), byte(v>>48), byte(v>>40), byte(v>>32), byte(v>>24), byte(v>>16), byte(v>>8), byte(v))
}

// Encode appends the Thrift Binary encoding of v.
func Encode(b []byte, v *Value) []byte {
	switch v.T {
	case BOOL, BYTE:
		return append(b, byte(v.I))
	case I16:
		return be16(b, uint16(v.I))
	case I32:
		return be32(b, uint32(v.I))
	case I64, DOUBLE:
		return be64(b, v.I)
	case STRING:
		return append(be32(b, uint32(len(v.S))), v.S...)
	case LIST, SET:
		b = be32(append(b, byte(v.Elem)), uint32(len(v.L)))
		for i := range v.L {
			b = Encode(b, &v.L[i])
		}
		return b
	case MAP:
		b = be32(append(b, byte(v.Key), byte(v.Elem)), uint32(len(v.L)/2))
		for i := range v.L {
			b = Encode(b, &v.L[i])
		}
		return b
	case STRUCT:
		for i := range v.F {
			b = be16(append(b, byte(v.F[i].V.T)), uint16(v.F[i].ID))
			b = Encode(b, &v.F[i].V)
		}
		return append(b, STOP)
	}
	panic("ref.Encode: bad type")
}

// EncodeField appends a field header plus value.
func EncodeField(b []byte, id int16, v *Value) []byte {
	b = be16(append(b, byte(v.T)), uint16(id))
	return Encode(b, v)
}

// Depth is the container nesting level of v (a scalar has depth 0, a list of scalars 1, ...).
func (v *Value) Depth() int {
	if !IsContainer(v.T) {
		return 0
	}
	d := 0
	for i := range v.L {
		if x := v.L[i].Depth(); x > d {
			d = x
		}
	}
	for i := range v.F {
		if x := v.F[i].V.Depth(); x > d {
			d = x
		}
	}
	return d + 1
}

// MessageBegin appends a strict-version message header.
func MessageBegin(b []byte, name string, mtype int32, seq int32) []byte {
	b = be32(b, 0x80010000|uint32(mtype)&0xffff)
	b = append(be32(b, uint32(len(name))), name...)
	return be32(b, uint32(seq))
}

// ---- independent recursive-descent skipper over the grammar ----

type Cause uint8

const (
	Truncated Cause = 1 << iota
	NegativeSize
	UnknownType
)

// SkipResult: OK => N is the extent of the value.  Otherwise Causes is the set of defects visible
// at the first failing grammar node (more than one only when a header is malformed in two ways).
// MaxDepth is the deepest container level entered (top-level container = 1).
type SkipResult struct {
	OK       bool
	N        int
	Causes   Cause
	MaxDepth int
}

func u32(b []byte) uint32 {
	return uint32(b[0])<<24 | uint32(b[1])<<16 | uint32(b[2])<<8 | uint32(b[3])
}

// Skip parses one value of type t at the start of b.  It has no recursion limit of its own;
// callers compare MaxDepth with the boundary zone.  Inputs must be small enough to recurse on.
func Skip(b []byte, t int8) SkipResult {
	r := SkipResult{}
	n, c := skip(b, t, 1, &r.MaxDepth)
	if c != 0 {
		r.Causes = c
		return r
	}
	r.OK, r.N = true, n
	return r
}

// minSize is the smallest encoding a value of type t can have.
func minSize(t int8) int64 {
	if fs := FixedSize(t); fs > 0 {
		return int64(fs)
	}
	switch t {
	case STRING:
		return 4
	case STRUCT:
		return 1
	case LIST, SET:
		return 5
	case MAP:
		return 6
	}
	return 0
}

// also marks the input as truncated when c is another defect found inside a container whose declared element count
// cannot fit into the bytes that are left anyway: such an input is wrong in two ways and either cause may be named.
func orShort(c Cause, short bool) Cause {
	if short && c != 0 {
		return c | Truncated
	}
	return c
}

func skip(b []byte, t int8, level int, maxd *int) (int, Cause) {
	if fs := FixedSize(t); fs > 0 {
		if len(b) < fs {
			return 0, Truncated
		}
		return fs, 0
	}
	switch t {
	case STRING:
		if len(b) < 4 {
			return 0, Truncated
		}
		n := int32(u32(b))
		if n < 0 {
			return 0, NegativeSize
		}
		if len(b)-4 < int(n) {
			return 0, Truncated
		}
		return 4 + int(n), 0
	case LIST, SET:
		if level > *maxd {
			*maxd = level
		}
		if len(b) < 5 {
			return 0, Truncated
		}
		et, n := int8(b[0]), int32(u32(b[1:]))
		var c Cause
		if n < 0 {
			c |= NegativeSize
		}
		if n != 0 && !ValidType(et) {
			c |= UnknownType
		}
		if c != 0 {
			return 0, c
		}
		off := 5
		if fs := FixedSize(et); fs > 0 {
			need := int64(n) * int64(fs)
			if int64(len(b)-5) < need {
				return 0, Truncated
			}
			return 5 + int(need), 0
		}
		short := int64(len(b)-5) < int64(n)*minSize(et)
		for i := int32(0); i < n; i++ {
			m, c := skip(b[off:], et, level+1, maxd)
			if c != 0 {
				return 0, orShort(c, short)
			}
			off += m
		}
		return off, 0
	case MAP:
		if level > *maxd {
			*maxd = level
		}
		if len(b) < 6 {
			return 0, Truncated
		}
		kt, vt, n := int8(b[0]), int8(b[1]), int32(u32(b[2:]))
		var c Cause
		if n < 0 {
			c |= NegativeSize
		}
		if n != 0 && (!ValidType(kt) || !ValidType(vt)) {
			c |= UnknownType
		}
		if c != 0 {
			return 0, c
		}
		off := 6
		short := int64(len(b)-6) < int64(n)*(minSize(kt)+minSize(vt))
		for i := int32(0); i < n; i++ {
			m, c := skip(b[off:], kt, level+1, maxd)
			if c != 0 {
				return 0, orShort(c, short)
			}
			off += m
			m, c = skip(b[off:], vt, level+1, maxd)
			if c != 0 {
				return 0, orShort(c, short)
			}
			off += m
			if off > len(b) {
				return 0, Truncated
			}
		}
		return off, 0
	case STRUCT:
		if level > *maxd {
			*maxd = level
		}
		off := 0
		for {
			if len(b)-off < 1 {
				return 0, Truncated
			}
			ft := int8(b[off])
			if ft == STOP {
				return off + 1, 0
			}
			if len(b)-off < 3 {
				return 0, Truncated
			}
			if !ValidType(ft) {
				return 0, UnknownType
			}
			off += 3
			m, c := skip(b[off:], ft, level+1, maxd)
			if c != 0 {
				return 0, c
			}
			off += m
		}
	}
	return 0, UnknownType
}

// MaxDeclared walks b as a sequence of struct fields (as a FastRead / unknown-field parser would:
// field header, value, ... until STOP, end of input or the first malformed node) and reports the
// largest declared container size among the headers REACHED for which want(level, topID, topType)
// is true; level 1 = a container that is itself a top-level field value.  Used to keep inputs whose
// declared sizes exceed the property's cap away from entry points that allocate the declared size.
func MaxDeclared(b []byte, want func(level int, topID int16, topType int8) bool) uint32 {
	var max uint32
	off := 0
	for off < len(b) {
		ft := int8(b[off])
		if ft == STOP || len(b)-off < 3 {
			break
		}
		id := int16(uint16(b[off+1])<<8 | uint16(b[off+2]))
		off += 3
		n, ok := walk(b[off:], ft, 1, func(level int, size uint32) {
			if want(level, id, ft) && size > max {
				max = size
			}
		})
		if !ok {
			break
		}
		off += n
	}
	return max
}

func walk(b []byte, t int8, level int, on func(level int, size uint32)) (int, bool) {
	if fs := FixedSize(t); fs > 0 {
		if len(b) < fs {
			return 0, false
		}
		return fs, true
	}
	switch t {
	case STRING:
		if len(b) < 4 {
			return 0, false
		}
		n := u32(b)
		if n > uint32(len(b)-4) {
			return 0, false
		}
		return 4 + int(n), true
	case LIST, SET:
		if len(b) < 5 {
			return 0, false
		}
		et, n := int8(b[0]), u32(b[1:])
		on(level, n)
		off := 5
		for i := uint32(0); i < n; i++ {
			m, ok := walk(b[off:], et, level+1, on)
			if !ok {
				return 0, false
			}
			off += m
		}
		return off, true
	case MAP:
		if len(b) < 6 {
			return 0, false
		}
		kt, vt, n := int8(b[0]), int8(b[1]), u32(b[2:])
		on(level, n)
		off := 6
		for i := uint32(0); i < n; i++ {
			m, ok := walk(b[off:], kt, level+1, on)
			if !ok {
				return 0, false
			}
			off += m
			m, ok = walk(b[off:], vt, level+1, on)
			if !ok {
				return 0, false
			}
			off += m
		}
		return off, true
	case STRUCT:
		off := 0
		for {
			if len(b)-off < 1 {
				return 0, false
			}
			ft := int8(b[off])
			if ft == STOP {
				return off + 1, true
			}
			if len(b)-off < 3 {
				return 0, false
			}
			off += 3
			m, ok := walk(b[off:], ft, level+1, on)
			if !ok {
				return 0, false
			}
			off += m
		}
	}
	return 0, false
}

// Decode parses one well-formed value of type t (inputs come from the reference encoder or
// from code under test whose output is being checked); ok=false on any malformation.
func Decode(b []byte, t int8) (v Value, n int, ok bool) {
	v.T = t
	if fs := FixedSize(t); fs > 0 {
		if len(b) < fs {
			return v, 0, false
		}
		for i := 0; i < fs; i++ {
			v.I = v.I<<8 | uint64(b[i])
		}
		return v, fs, true
	}
	switch t {
	case STRING:
		if len(b) < 4 {
			return v, 0, false
		}
		l := int32(u32(b))
		if l < 0 || len(b)-4 < int(l) {
			return v, 0, false
		}
		v.S = append([]byte{}, b[4:4+int(l)]...)
		return v, 4 + int(l), true
	case LIST, SET:
		if len(b) < 5 {
			return v, 0, false
		}
		v.Elem = int8(b[0])
		cnt := int32(u32(b[1:]))
		if cnt < 0 || (cnt > 0 && !ValidType(v.Elem)) {
			return v, 0, false
		}
		off := 5
		v.L = []Value{}
		for i := int32(0); i < cnt; i++ {
			e, m, ok := Decode(b[off:], v.Elem)
			if !ok {
				return v, 0, false
			}
			v.L = append(v.L, e)
			off += m
		}
		return v, off, true
	case MAP:
		if len(b) < 6 {
			return v, 0, false
		}
		v.Key, v.Elem = int8(b[0]), int8(b[1])
		cnt := int32(u32(b[2:]))
		if cnt < 0 || (cnt > 0 && (!ValidType(v.Key) || !ValidType(v.Elem))) {
			return v, 0, false
		}
		off := 6
		v.L = []Value{}
		for i := int32(0); i < cnt; i++ {
			for _, et := range []int8{v.Key, v.Elem} {
				e, m, ok := Decode(b[off:], et)
				if !ok {
					return v, 0, false
				}
				v.L = append(v.L, e)
				off += m
			}
		}
		return v, off, true
	case STRUCT:
		off := 0
		for {
			if len(b)-off < 1 {
				return v, 0, false
			}
			ft := int8(b[off])
			if ft == STOP {
				return v, off + 1, true
			}
			if len(b)-off < 3 || !ValidType(ft) {
				return v, 0, false
			}
			id := int16(uint16(b[off+1])<<8 | uint16(b[off+2]))
			off += 3
			e, m, ok := Decode(b[off:], ft)
			if !ok {
				return v, 0, false
			}
			v.F = append(v.F, Field{ID: id, V: e})
			off += m
		}
	}
	return v, 0, false
}
