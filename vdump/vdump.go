// Package vdump reads the private state of objects of the code under test WITHOUT naming any private
// identifier: everything goes through reflection on the value's own type.  Canonical state keys (E2), pooled-object
// snapshots and use-after-Put traps (E3) therefore survive refactorings of cloudwego/gopkg that rename, reorder or
// add private fields; a check never fails to build because a private name changed.
package vdump

import (
	"fmt"
	"hash/maphash"
	"reflect"
	"strings"
	"unsafe"
)

var seed = maphash.MakeSeed() // keys are compared within one process only

// Opt selects what a rendering contains.
type Opt struct {
	Content  bool // hash the contents (up to len) of byte slices; otherwise only len/cap
	Pointers bool // include the data pointer of slices (identity of the backing array)
	SkipSync bool // leave out fields whose type comes from package sync or sync/atomic
}

// Key renders every field reachable from *x (x must be a pointer to a struct) in declaration order, without names.
// Interfaces are rendered by dynamic type only (an error additionally as "E") and are not followed; pointers to
// structs are followed (cycle-safe); maps by length; funcs and channels by nil-ness.
func Key(x interface{}, o Opt) string {
	var b strings.Builder
	v := reflect.ValueOf(x)
	if v.Kind() != reflect.Ptr || v.IsNil() {
		return fmt.Sprintf("%T", x)
	}
	render(&b, access(v.Elem()), o, map[uintptr]bool{v.Pointer(): true}, 0)
	return b.String()
}

// access returns an addressable, readable view of v even when v was obtained through unexported fields.
func access(v reflect.Value) reflect.Value {
	if v.CanAddr() {
		return reflect.NewAt(v.Type(), unsafe.Pointer(v.UnsafeAddr())).Elem()
	}
	return v
}

var errorType = reflect.TypeOf((*error)(nil)).Elem()

func isSyncType(t reflect.Type) bool {
	p := t.PkgPath()
	return p == "sync" || p == "sync/atomic" || strings.HasSuffix(p, "/verifshim/vsync") || strings.HasSuffix(p, "/verifshim/vatomic")
}

func render(b *strings.Builder, v reflect.Value, o Opt, seen map[uintptr]bool, depth int) {
	if depth > 12 {
		b.WriteString("…")
		return
	}
	switch v.Kind() {
	case reflect.Bool:
		fmt.Fprintf(b, "%v,", v.Bool())
	case reflect.Int, reflect.Int8, reflect.Int16, reflect.Int32, reflect.Int64:
		fmt.Fprintf(b, "%d,", v.Int())
	case reflect.Uint, reflect.Uint8, reflect.Uint16, reflect.Uint32, reflect.Uint64, reflect.Uintptr:
		fmt.Fprintf(b, "%d,", v.Uint())
	case reflect.Float32, reflect.Float64:
		fmt.Fprintf(b, "%x,", v.Float())
	case reflect.Complex64, reflect.Complex128:
		fmt.Fprintf(b, "%v,", v.Complex())
	case reflect.String:
		s := v.String()
		if len(s) > 64 {
			fmt.Fprintf(b, "s%d#%x,", len(s), maphash.String(seed, s))
		} else {
			fmt.Fprintf(b, "%q,", s)
		}
	case reflect.Slice:
		if v.IsNil() {
			b.WriteString("nil,")
			return
		}
		fmt.Fprintf(b, "%d/%d", v.Len(), v.Cap())
		if o.Pointers {
			fmt.Fprintf(b, "@%x", v.Pointer())
		}
		if v.Type().Elem().Kind() == reflect.Uint8 {
			if o.Content && v.Len() > 0 {
				bs := unsafe.Slice((*byte)(unsafe.Pointer(v.Pointer())), v.Len())
				fmt.Fprintf(b, "#%x", maphash.Bytes(seed, bs))
			}
			b.WriteString(",")
			return
		}
		b.WriteString("[")
		for i := 0; i < v.Len(); i++ {
			render(b, access(v.Index(i)), o, seen, depth+1)
		}
		b.WriteString("],")
	case reflect.Array:
		b.WriteString("[")
		for i := 0; i < v.Len(); i++ {
			render(b, access(v.Index(i)), o, seen, depth+1)
		}
		b.WriteString("],")
	case reflect.Struct:
		if o.SkipSync && isSyncType(v.Type()) {
			return
		}
		b.WriteString("{")
		for i := 0; i < v.NumField(); i++ {
			render(b, access(v.Field(i)), o, seen, depth+1)
		}
		b.WriteString("},")
	case reflect.Ptr:
		if v.IsNil() {
			b.WriteString("nil,")
			return
		}
		if o.SkipSync && isSyncType(v.Type().Elem()) {
			return
		}
		if seen[v.Pointer()] {
			b.WriteString("^,")
			return
		}
		if v.Type().Elem().Kind() != reflect.Struct {
			b.WriteString("*")
			render(b, access(v.Elem()), o, seen, depth+1)
			return
		}
		seen[v.Pointer()] = true
		b.WriteString("&")
		render(b, access(v.Elem()), o, seen, depth+1)
	case reflect.Interface:
		if v.IsNil() {
			b.WriteString("nil,")
			return
		}
		if v.Type().Implements(errorType) {
			b.WriteString("E")
		}
		fmt.Fprintf(b, "<%s>,", v.Elem().Type())
	case reflect.Map:
		if v.IsNil() {
			b.WriteString("nil,")
		} else {
			fmt.Fprintf(b, "m%d,", v.Len())
		}
	case reflect.Func, reflect.Chan, reflect.UnsafePointer:
		if v.IsNil() {
			b.WriteString("nil,")
		} else {
			b.WriteString("set,")
		}
	default:
		b.WriteString("?,")
	}
}

// HasSync reports whether any field reachable from *x (through structs, arrays, slices' element types and pointers)
// has a type from package sync or sync/atomic: such an object may legitimately change under read-only operations.
func HasSync(x interface{}) bool {
	return hasSync(reflect.TypeOf(x), map[reflect.Type]bool{})
}

func hasSync(t reflect.Type, seen map[reflect.Type]bool) bool {
	if seen[t] {
		return false
	}
	seen[t] = true
	if isSyncType(t) {
		return true
	}
	switch t.Kind() {
	case reflect.Ptr, reflect.Slice, reflect.Array:
		return hasSync(t.Elem(), seen)
	case reflect.Struct:
		for i := 0; i < t.NumField(); i++ {
			if hasSync(t.Field(i).Type, seen) {
				return true
			}
		}
	}
	return false
}

// ArmTraps stores trap into every interface-typed field of *x that trap's type can be assigned to (the reader/writer
// references a pooled object holds): any later USE of the object through such a stale reference runs into the trap.
// It returns the number of fields set.
func ArmTraps(x interface{}, trap interface{}) int {
	v := reflect.ValueOf(x)
	if v.Kind() != reflect.Ptr || v.IsNil() || v.Elem().Kind() != reflect.Struct {
		return 0
	}
	tv := reflect.ValueOf(trap)
	n := 0
	e := v.Elem()
	for i := 0; i < e.NumField(); i++ {
		f := access(e.Field(i))
		if f.Kind() == reflect.Interface && tv.Type().Implements(f.Type()) && f.CanSet() {
			f.Set(tv)
			n++
		}
	}
	return n
}

// IntSliceLens returns the lengths of the fields of *x (one level, following one pointer level into nested structs)
// that are slices of a non-byte integer type — e.g. the bucket/slot table of a hash map.
func IntSliceLens(x interface{}) []int {
	var out []int
	v := reflect.ValueOf(x)
	if v.Kind() != reflect.Ptr || v.IsNil() {
		return nil
	}
	var walk func(v reflect.Value, depth int)
	walk = func(v reflect.Value, depth int) {
		if v.Kind() != reflect.Struct {
			return
		}
		for i := 0; i < v.NumField(); i++ {
			f := access(v.Field(i))
			switch f.Kind() {
			case reflect.Slice:
				switch f.Type().Elem().Kind() {
				case reflect.Int, reflect.Int16, reflect.Int32, reflect.Int64, reflect.Uint, reflect.Uint16, reflect.Uint32, reflect.Uint64:
					out = append(out, f.Len())
				}
			case reflect.Ptr:
				if !f.IsNil() && depth < 2 {
					walk(access(f.Elem()), depth+1)
				}
			case reflect.Struct:
				if depth < 2 {
					walk(f, depth+1)
				}
			}
		}
	}
	walk(access(v.Elem()), 0)
	return out
}

// ByteSlices returns every []byte field of *x (one level): used to look at an object's internal buffers without
// knowing their names.
func ByteSlices(x interface{}) [][]byte {
	var out [][]byte
	v := reflect.ValueOf(x)
	if v.Kind() != reflect.Ptr || v.IsNil() || v.Elem().Kind() != reflect.Struct {
		return nil
	}
	e := v.Elem()
	for i := 0; i < e.NumField(); i++ {
		f := access(e.Field(i))
		if f.Kind() == reflect.Slice && f.Type().Elem().Kind() == reflect.Uint8 && !f.IsNil() {
			out = append(out, unsafe.Slice((*byte)(unsafe.Pointer(f.Pointer())), f.Cap())[:f.Len()])
		}
	}
	return out
}
